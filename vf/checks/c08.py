"""C08 generated readers are total and bounded (engine A)."""
from .. import codec, schemagen

# containers whose elements can be empty: nat-sized tuples nested in counted containers
CONTAINERS = """
vz.grid m:# n:# rows:(tuple (tuple int m) n) = vz.Grid;
vz.gridV m:# rows:(vector (tuple int m)) = vz.GridV;
vz.gridL n:# m:# rows:(tuple (tuple long m) n) tail:int = vz.GridL;
vz.gridT {m:#} {n:#} rows:(tuple (tuple int m) n) = vz.GridT m n;
vz.useGridT a:# b:# g:(vz.gridT a b) = vz.UseGridT;
vz.gridS m:# rows:(vector (tuple string m)) = vz.GridS;
vz.cube a:# b:# c:# cells:(tuple (tuple (tuple int a) b) c) = vz.Cube;
vz.gridM f:# m:# rows:f.0?(vector (tuple int m)) = vz.GridM;
---functions---
@read vz.getGrid m:# n:# = Tuple (Tuple int m) n;
"""

RULE = ("per item and variant: every reader (TL1 bare/boxed, TL2, JSON) on mutated encodings, hostile 32-bit counts (2^31, 2^32-1, len+1...), hostile TL2 sizes "
        "(0xfe/0xff forms, huge sizes, 200-deep size nesting), random byte strings, JSON nesting bombs / long literals / truncations; the six function-result "
        "transcoders on hostile input. Monitors: recover() around every call (panic = violation), journaled child with a watchdog and a memory ulimit "
        "(death = violation attributed to the item, except while the harness produces its own FillRandom values and their encodings: that is C18's subject), runtime.MemStats TotalAlloc delta on every 7th read of inputs <= 1 KiB in sanity builds: "
        "delta <= 1 MiB + maxElemSize*len^2. Short TL1 encodings additionally with every pair of words set to (0, 2^20 / 2^23) - empty elements next to a huge "
        "count - each measured against the allocation envelope; a crafted schema of nat-sized tuples nested in counted containers. distinct_nontrivial = distinct (item, reader, outcome).")


def run(ctx):
    codec.simple_check(ctx, "c08", RULE, [("types", "types", 150), ("reads", "reads", 100000), ("allocation samples", "alloc_samples", 5000),
                                          ("transcoder inputs", "transcoder_inputs", 1000)], 16, 120, count_keys=("reads", "transcoder_inputs"), mem_gb=4, random_quick=3, random_thorough=30, oom_is_violation=True, advisory_deaths=("c08-values", "fill-random"),
                       extra_texts=[("containers", schemagen.PRELUDE + CONTAINERS)])
