"""C38 RPC calls receive exactly their own responses (engine G, -race)."""
from .. import inpkg


def run(ctx):
    thorough = ctx.tier == "thorough"
    ctx.cov["rule"] = ("real rpc.NewServer / rpc.NewClient on loopback TCP and Unix sockets, with and without crypto keys; unencrypted runs alternate through a "
                       "harness byte-stream proxy that delays and re-segments; 6-12 workers on 2 clients, each call carries a unique id; handler kinds: echo+id "
                       "transformation, per-id rpc.Error (codes -5000..-5999), slow echo, never answers (client timeout), cancelled by the client; Do and "
                       "DoCallback, PutResponse reuse, large bodies. History recorded at the client boundary; checker: a successful call's body is exactly its own "
                       "id's response, an application-range rpc error is exactly its own handler's (code, description), everything else is its own "
                       "context/timeout/library error. Close scenarios: client.Close / server.Close / proxy cut while slow calls are pending => every pending "
                       "call returns (90-120 s watchdog). Built with -race: every race report is a violation. Repeated with GOMAXPROCS 2 and 16. "
                       "distinct_nontrivial = distinct (network, key, proxy, close mode, workers) configurations.")
    tot = {}
    for gmp in ([2, 16] if not thorough else [1, 2, 4, 16, 32]):
        env = {"VERIF_N": 12 if thorough else 2, "VERIF_CALLS": 150 if thorough else 60, "VERIF_SEED": ctx.seed * 100 + gmp}
        r, ev = inpkg.run_inpkg(ctx, "rpcmon", "pkg/rpc/vmon", "^TestVerifC38$", env=env, race=True, timeout=3400, gomaxprocs=gmp)
        sm = inpkg.absorb(ctx, r, ev, "rpc calls (GOMAXPROCS=%d)" % gmp)
        t = inpkg.merge_counters(ctx, sm)
        for k, v in t.items():
            tot[k] = tot.get(k, 0) + v
        for key, block in inpkg.race_reports(r):
            ctx.violation({"oracle": "race-detector", "class": key}, "data race reported in the rpc call workload:\n" + block, {"race.txt": block})
    ctx.count(tot.get("calls_completed", 0))
    ctx.require("calls completed", tot.get("calls_completed", 0), 8000 if not thorough else 200000)
    ctx.require("successful calls", tot.get("calls_ok", 0), 4000)
    ctx.require("rpc errors", tot.get("calls_rpc_error", 0), 500)
    ctx.require("close scenarios", tot.get("close_scenarios", 0), 20)
