"""Helper for checks whose monitors are in-package `_test.go` files injected into a scratch copy."""
import json
import os

from . import core


def run_inpkg(ctx, src_dir, pkg_rel, test_regex, env=None, race=False, timeout=900, build_timeout=900, binary=None,
              gomaxprocs=None, extra_args=(), inject_extra=()):
    """inject harness/<src_dir>/* into <scratch>/<pkg_rel>, build the test binary once, run it.
    Returns (RunResult, events) where events are the '@@' JSON objects it printed."""
    if ctx.scratch is None:
        ctx.make_scratch()
    marker = "_injected_" + src_dir.replace("/", "_")
    if not getattr(ctx, marker, False):
        ctx.inject(src_dir, pkg_rel)
        for s, d in inject_extra:
            ctx.inject(s, d)
        setattr(ctx, marker, True)
    binary = binary or os.path.join(ctx.work, src_dir.replace("/", "_") + (".race" if race else "") + ".test")
    if not os.path.exists(binary):
        r = ctx.gotest_build("./" + pkg_rel, binary, race=race, timeout=build_timeout)
        ctx.need(r, "building in-package monitors for " + pkg_rel)
    e = {"VERIF_SEED": str(ctx.seed)}
    if gomaxprocs:
        e["GOMAXPROCS"] = str(gomaxprocs)
    if env:
        e.update({k: str(v) for k, v in env.items()})
    if race:
        e.setdefault("GORACE", "halt_on_error=0")
    r = ctx.run([binary, "-test.run", test_regex, "-test.v", "-test.timeout", "%ds" % (timeout + 60)] + list(extra_args),
                cwd=os.path.join(ctx.scratch, pkg_rel), env=e, timeout=timeout + 120, quit_dump=True)
    events = list(r.json_lines())
    return r, events


def absorb(ctx, r, events, what, viol_sig=None, expect_summary=True):
    """standard treatment of harness events: violations, summaries, crashes"""
    summaries = []
    for ev in events:
        t = ev.get("t")
        if t == "violation":
            sig = {"oracle": ev.get("oracle", ""), "class": ev.get("class", "")}
            for k in ("item", "schema", "variant", "format", "config", "shape"):
                if k in ev:
                    sig[k] = ev[k]
            if viol_sig:
                sig.update(viol_sig)
            rep = {}
            if "input" in ev:
                rep["input.txt"] = ev["input"]
            rep["event.json"] = json.dumps(ev, indent=1)
            ctx.violation(sig, "%s: %s" % (what, ev.get("desc", "")), rep)
        elif t == "summary":
            summaries.append(ev)
        elif t == "note":
            ctx.note(str(ev.get("msg", ""))[:900])
        elif t == "inconclusive":
            ctx.inconc(str(ev.get("msg", ""))[:300])
    if expect_summary and not summaries:
        # the child died before reporting: attribute to the last journaled case if there is one
        tail = r.crash_head(3000)
        last = None
        for ev in events:
            if ev.get("t") == "journal":
                last = ev
        if r.timed_out:
            ctx.inconc("%s: child hit the wall-clock watchdog (rc=%d)" % (what, r.rc))
        else:
            ctx.violation({"oracle": "child-died", "class": classify_death(tail), **(viol_sig or {})},
                          "%s: harness process died (rc=%d) before finishing; last journal entry: %s\n%s" % (
                              what, r.rc, json.dumps(last)[:600] if last else "none", tail),
                          {"tail.txt": tail, "journal.json": json.dumps(last) if last else ""})
    return summaries


def classify_death(tail):
    if "stack overflow" in tail or "goroutine stack exceeds" in tail:
        return "stack-overflow"
    if "out of memory" in tail or "cannot allocate memory" in tail:
        return "out-of-memory"
    if "DATA RACE" in tail:
        return "data-race"
    if "panic:" in tail:
        return "panic"
    if "fatal error:" in tail:
        return "fatal"
    return "other"


def race_reports(r):
    """deduplicated race reports of a -race run: list of (key, text)"""
    txt = r.text()
    out = {}
    parts = txt.split("WARNING: DATA RACE")
    for p in parts[1:]:
        block = p.split("==================")[0]
        funcs = []
        for line in block.splitlines():
            line = line.strip()
            if line.endswith(")") and "(" in line and not line.startswith("/") and not line.startswith("Previous") and not line.startswith("Goroutine"):
                funcs.append(line.split("(")[0])
        key = "|".join(funcs[:2])
        out.setdefault(key, block[:3000])
    return sorted(out.items())


def merge_counters(ctx, summaries, prefix=""):
    tot = {}
    for s in summaries:
        for k, v in (s.get("counters") or {}).items():
            tot[prefix + k] = tot.get(prefix + k, 0) + v
        ctx.add_distinct_count(int(s.get("distinct", 0)))
        for x in s.get("samples") or []:
            ctx.sample(x)
    c = ctx.cov.setdefault("counters", {})
    for k, v in tot.items():
        c[k] = c.get(k, 0) + v
    return tot
