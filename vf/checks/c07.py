"""C07 function result transcoders are mutually consistent (engine A)."""
from .. import codec

RULE = ("per function item and variant: request from FillRandom or a hostile reflective fill read back through TL1 (its nat fields shape the result), result bytes "
        "from FillRandomResultTL1; oracles: TL1->JSON->TL1 == result, TL1->TL2->TL1 == result, TL1->TL2->JSON == TL1->JSON, JSON->TL2 == TL1->TL2, each "
        "transcoder leaves exactly the appended suffix, JSON is valid, and the typed ReadResult*/WriteResult* methods (reached by reflection) give the same "
        "bytes as the transcoders; items without TL2 return an error instead of panicking. distinct_nontrivial = distinct (function, variant, result bucket).")


def run(ctx):
    codec.simple_check(ctx, "c07", RULE, [("functions", "functions", 30), ("results", "results", 1500), ("typed comparisons", "typed_comparisons", 1000),
                                          ("full chains", "all_transcoders_agree", 1000)], 40, 400, count_keys=("results",), random_quick=2, random_thorough=20)
