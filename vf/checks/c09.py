"""C09 decoding into a reused object equals decoding into a fresh one (engine A)."""
from .. import codec

RULE = ("per item and variant: histories of 2-6 decodes (TL1 bare/boxed, TL2, JSON; writer outputs of random/hostile/default values, 1/4 mutated so that some steps "
        "fail) into one object; after every step a fresh object decodes the same input: equal error-ness, equal consumed length and equal TL1/TL2/JSON "
        "encodings (after a failed decode only the error is compared and the dirty object stays in the history); finally Reset() must make every encoding "
        "equal that of a fresh object. distinct_nontrivial = distinct (item, format, value bucket).")


def run(ctx):
    codec.simple_check(ctx, "c09", RULE, [("types", "types", 150), ("decodes", "decodes", 20000), ("equal decodes", "decodes_equal", 10000), ("resets", "resets", 3000)],
                       24, 150, count_keys=("decodes",), random_quick=3, random_thorough=30)
