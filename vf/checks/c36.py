"""C36 UDP transport delivers every message intact exactly once (engine H, in-package simulator driver)."""
from .. import inpkg


def run(ctx):
    n = 3000 if ctx.tier == "quick" else 120000
    ctx.cov["rule"] = ("each run = 100-500 commands from a grammar-aware generator (new message with unique id and id-derived contents, writer step, "
                       "reader step with arbitrary datagram choice, header hand-over, resend/ack/resend-request timer, datagram duplication, datagram loss; "
                       "bursts, focus on 2-6 of 16 transports; every 5th run also regenerate timers = restarts) executed through the package's own step "
                       "functions, then full settle rounds until quiescent. Monitors after every step: acquiredMemory within [0, limit]; per connection "
                       "(same generation, no-restart runs) acknowledged-outgoing, received and acks-to-send prefixes never decrease; no delivery of an "
                       "unknown id, to a wrong pair, with altered bytes, or twice. At quiescence (no-restart runs): every submitted id delivered exactly "
                       "once, acquiredMemory == 0 on every transport (sender-side buffer counters are evidence only); a settle round that changes nothing while data is "
                       "pending is a stall (bounded progress). Panics of the package's own invariant checks are violations. "
                       "distinct_nontrivial = distinct (messages, losses/4, duplications/4, settle rounds, restarts) run shapes.")
    shards = 1 if ctx.tier == "quick" else 12
    tot = {}
    for sh in range(shards):
        r, ev = inpkg.run_inpkg(ctx, "inpkg/udp", "pkg/rpc/udp", "^TestVerifC36$", env={"VERIF_N": n // shards, "VERIF_SEED": ctx.seed * 1000 + sh}, timeout=3000)
        sm = inpkg.absorb(ctx, r, ev, "UDP simulator")
        t = inpkg.merge_counters(ctx, sm)
        for k, v in t.items():
            tot[k] = tot.get(k, 0) + v
    ctx.count(tot.get("runs", 0))
    ctx.require("runs", tot.get("runs", 0), n * 9 // 10)
    ctx.require("messages delivered", tot.get("messages_delivered", 0), n * 5)
    ctx.require("loss commands", tot.get("loss_commands", 0), n)
    ctx.require("duplication commands", tot.get("duplication_commands", 0), n)
