#!/usr/bin/env python3
"""Generates /verif/MANIFEST.json from the table below (kept next to the checks it describes)."""
import json
import os

VERIF = os.path.dirname(os.path.dirname(os.path.abspath(__file__)))

# id -> (engine, technique, level text, level note, design ref)
CHECKS = {
    "C19": ("tlast", "in-package runtime monitor over fuzzed/mutated/generated inputs (recover + position oracle)",
            "Held on ~150k (quick) / 4M (thorough) hostile inputs per run: no panic in the TL1 parser or in error printing, every reported "
            "position inside the text with line/column recomputed independently. Exploration only: inputs the generators do not produce are not covered.",
            "Trusts the harness's own line/column recomputation; \\r inputs are range-checked only (the lexer documents no \\r support).", "6 C19/C20"),
    "C20": ("tlast", "in-package runtime monitor over fuzzed/mutated/generated inputs (recover + position oracle)",
            "Same monitor as C19 on the TL2 parser and lexer options.", "As C19.", "6 C19/C20"),
    "C21": ("tlast", "metamorphic round-trip monitor (parse, print, parse) with reflection-based structural comparison",
            "Held on every repository schema, thousands of generated schemas in random layouts and parseable mutants; comparison is structural, "
            "not via the printer itself.", "Comparison ignores positions, comments and resolution-time fields only. Known finding F6 (explicit #00000000).", "6 C21"),
    "C22": ("tlast", "metamorphic round-trip + idempotence monitor over generated TL2 files",
            "Held for default and canonical options on repository files, generated files (with layout noise, pragma comments, long lines) and mutants.",
            "Names of ignored fields are compared by ignoredness only.", "6 C22"),
    "C23": ("tlast", "differential monitor against an independently written canonical-form printer + CRC32, over layout rewrites",
            "Each generated combinator's expected tag is computed by the harness's own canonical printer; all 8 layouts must parse to it; documented known answers anchor the rule.",
            "Inside '[ ]' only unambiguous element types are generated.", "6 C23"),
}

NOT_APPLICABLE = {
    "C32": "Deciding it requires executing generated PHP; the sealed image has no PHP/KPHP runtime, so runtime monitoring cannot observe it.",
}


def main():
    checks = []
    for pid in sorted(CHECKS):
        eng, tech, text, note, ref = CHECKS[pid]
        checks.append({
            "property_id": pid,
            "quick_cmd": "bin/verif check %s --tier quick" % pid,
            "thorough_cmd": "bin/verif check %s --tier thorough" % pid,
            "evidence_file": "/verif/evidence/%s.json" % pid,
            "replay_cmd_template": "bin/verif check %s --replay {path}" % pid,
            "engine": eng,
            "level_claimed": {"category": "exploration", "text": text, "design_ref": "DESIGN.md section " + ref},
            "level_note": note,
            "technique": tech,
        })
    props = [json.loads(l)["id"] for l in open(os.path.join(VERIF, "properties.jsonl"))]
    na = []
    for p in props:
        if p in CHECKS:
            continue
        na.append({"property_id": p, "reason": NOT_APPLICABLE.get(p, "not yet built in this round (work in progress; see DESIGN.md section 6 for the planned check)")})
    m = {
        "version": 1,
        "setup_cmd": "bin/setup",
        "hooks": {
            "guard": "verif",
            "enable": "no source hooks: files from /verif/harness (all carry //go:build verif) are copied into a scratch copy of /repo's working tree under /var/tmp/verif-scratch; /repo itself is never changed by a check",
            "baseline_off_cmd": "cd /repo && PATH=/root/go/pkg/mod/golang.org/toolchain@v0.0.1-go1.24.0.linux-amd64/bin:$PATH GOTOOLCHAIN=local GOSUMDB=off GOPROXY=off GOFLAGS=-mod=mod go test -vet=off -count=1 -timeout 25m ./...",
            "source_commits": [],
            "add_only": True,
        },
        "engines": [],
        "checks": checks,
        "not_applicable": na,
        "notes": "All checks: runtime monitoring of the real code rebuilt from /repo's working tree in a scratch copy. Exit 0 held / 1 VIOLATION / 2 inconclusive (never on a healthy tree). VERIF_SEED selects the case lists.",
    }
    engines = {}
    for pid, (eng, *_r) in CHECKS.items():
        engines.setdefault(eng, []).append(pid)
    for e, ps in sorted(engines.items()):
        m["engines"].append({"name": e, "path": "/verif/vf/checks + /verif/harness", "serves_properties": sorted(ps), "kind_free_text": "runtime monitoring"})
    with open(os.path.join(VERIF, "MANIFEST.json"), "w") as f:
        json.dump(m, f, indent=1)
        f.write("\n")


if __name__ == "__main__":
    main()
