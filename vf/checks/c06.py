"""C06 JSON reader accepts documented alternative forms and rejects invalid ones (engine A, schema-free part)."""
from .. import codec

RULE = ("schema-free part on packages generated from the repository schemas: for canonical documents of FillRandom / hostile values: every number rewritten "
        "as a decimal string and insignificant whitespace inserted => accepted with identical TL1/TL2/JSON; duplicate key and unknown key in the top-level "
        "struct object => rejected. (Alternative forms that need the schema - omitted empties, enum/union spellings, Maybe forms, mask inference, array length "
        "vs size - are exercised by the reference-model engine when available.) distinct_nontrivial = distinct (item, form).")


def run(ctx):
    codec.simple_check(ctx, "c06", RULE, [("types", "types", 150), ("documents", "documents", 4000), ("numbers-as-strings documents", "alt_numbers_as_strings", 2000),
                                          ("duplicate-key documents", "reject_duplicate-key", 1500), ("unknown-key documents", "reject_unknown-key", 1500)],
                       40, 300, count_keys=("documents",), random_quick=2, random_thorough=20)
