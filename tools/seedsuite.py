#!/usr/bin/env python3
"""Runs the repository suite with a stored seeded patch applied (fresh worktree) and records the result in meta.json."""
import json, os, subprocess, sys, time
GO = "/root/go/pkg/mod/golang.org/toolchain@v0.0.1-go1.24.0.linux-amd64/bin"
ENV = dict(os.environ, PATH=GO + ":" + os.environ["PATH"], GOTOOLCHAIN="local", GOSUMDB="off", GOPROXY="off", GOFLAGS="-mod=mod")
for name in sys.argv[1:]:
    sd = "/verif/seeded/" + name
    meta = json.load(open(sd + "/meta.json"))
    wt = "/var/tmp/seedwt/suite-%s-%d" % (name, os.getpid())
    os.makedirs(os.path.dirname(wt), exist_ok=True)
    subprocess.run(["git", "-C", "/repo", "worktree", "add", "--detach", wt, "HEAD"], check=True, stdout=subprocess.DEVNULL, stderr=subprocess.DEVNULL)
    try:
        subprocess.run(["git", "-C", wt, "apply", sd + "/patch.diff"], check=True)
        t0 = time.time()
        p = subprocess.run(["go", "test", "-vet=off", "-count=1", "-timeout", "25m", "./..."], cwd=wt, env=ENV, stdout=subprocess.PIPE, stderr=subprocess.STDOUT)
        out = p.stdout.decode("utf-8", "replace")
        fails = [l for l in out.splitlines() if l.startswith("FAIL") or l.startswith("--- FAIL")]
        meta["suite_with_patch"] = {"rc": p.returncode, "fails": fails[:10], "wall_s": round(time.time() - t0)}
        json.dump(meta, open(sd + "/meta.json", "w"), indent=1)
        print(name, "suite rc=%d fails=%s" % (p.returncode, fails[:3]))
    finally:
        subprocess.run(["git", "-C", "/repo", "worktree", "remove", "--force", wt], stdout=subprocess.DEVNULL, stderr=subprocess.DEVNULL)
