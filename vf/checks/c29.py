"""C29 linter accepts documented safe schema evolutions (engine E)."""
import copy

from .. import core, linter


def run(ctx):
    thorough = ctx.tier == "thorough"
    ctx.make_scratch()
    n = 3000 if thorough else 300
    r = core.stream(ctx.seed, "c29")
    pairs, meta = [], []
    for i in range(n):
        s = linter.small_schema(ctx.seed, "c29/%d" % (i // 6))
        old = s.text()
        s2 = copy.deepcopy(s)
        kinds = []
        if i % 6 != 0:
            for _ in range(1 + r.below(5)):
                res = r.pick(linter.SAFE)(s2, r)
                if res:
                    kinds.append(res[0])
        else:
            kinds = ["identity"]
        pairs.append((old, s2.text()))
        meta.append(kinds)
    verdicts = linter.run_linter(ctx, pairs)
    acc = 0
    for (old, new), kinds, (v, msg) in zip(pairs, meta, verdicts):
        ctx.count()
        for k in kinds:
            c = ctx.cov.setdefault("counters", {})
            c["edit_" + k] = c.get("edit_" + k, 0) + 1
        ctx.distinct("+".join(sorted(set(kinds))) + "/" + str(hash(old) % 50))
        if v == "ACCEPT":
            acc += 1
            continue
        if v.startswith("PARSE"):
            ctx.inconc("generated schema does not parse: " + msg[:100])
            continue
        ctx.violation({"oracle": "linter-accepts-safe", "class": "+".join(sorted(set(kinds))) or "identity", "verdict": v},
                      "linter verdict %s for a documented safe evolution %s: %s" % (v, kinds, msg), {"old.tl": old, "new.tl": new})
    ctx.sample({"edits": meta[1], "new_tail": pairs[1][1][-300:]})
    ctx.cov["rule"] = ("pairs (old SchemaGen schema, new = old after 1-5 documented safe edits applied on the AST, or identity): append a field guarded by an unused bit of an "
                       "existing field mask (structs, union constructors, functions), append a constructor to a union/enum or to a struct that is referenced only boxed, add a "
                       "new type, add a new function whose first argument is '#'. The real CheckBackwardCompatibility(new, old) must return nil (a panic is a failure). "
                       "distinct_nontrivial = distinct (edit kinds, schema bucket).")
    ctx.require("pairs", len(pairs), n)
    ctx.require("accepted", acc, n * 8 // 10)
