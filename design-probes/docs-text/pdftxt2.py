import re,sys,zlib
data=open(sys.argv[1],'rb').read()
# collect objects
objs={}
for m in re.finditer(rb'(\d+) (\d+) obj(.*?)endobj',data,re.S):
    objs[int(m.group(1))]=m.group(3)
def stream_of(body):
    m=re.search(rb'stream\r?\n(.*?)\r?\nendstream',body,re.S)
    if not m: return None
    s=m.group(1)
    if b'FlateDecode' in body[:body.find(b'stream')]:
        try: s=zlib.decompress(s)
        except Exception as e:
            try: s=zlib.decompressobj().decompress(s)
            except Exception: return None
    return s
# object streams
for n,b in list(objs.items()):
    if b'/ObjStm' in b:
        s=stream_of(b)
        if not s: continue
        N=int(re.search(rb'/N (\d+)',b).group(1)); first=int(re.search(rb'/First (\d+)',b).group(1))
        hdr=s[:first].split()
        for i in range(N):
            num=int(hdr[2*i]); off=int(hdr[2*i+1])
            end=int(hdr[2*i+3]) if i+1<N else len(s)-first
            objs[num]=s[first+off:first+end]
# cmaps: font obj -> ToUnicode
def parse_cmap(s):
    mp={}
    for blk in re.finditer(rb'beginbfchar(.*?)endbfchar',s,re.S):
        for a,b in re.findall(rb'<([0-9A-Fa-f]+)>\s*<([0-9A-Fa-f]+)>',blk.group(1)):
            mp[int(a,16)]=bytes.fromhex(b.decode()).decode('utf-16-be','replace')
    for blk in re.finditer(rb'beginbfrange(.*?)endbfrange',s,re.S):
        for a,b,c in re.findall(rb'<([0-9A-Fa-f]+)>\s*<([0-9A-Fa-f]+)>\s*<([0-9A-Fa-f]+)>',blk.group(1)):
            a=int(a,16);b=int(b,16);c0=int(c,16)
            for i in range(a,b+1): mp[i]=chr(c0+i-a)
        for a,b,arr in re.findall(rb'<([0-9A-Fa-f]+)>\s*<([0-9A-Fa-f]+)>\s*\[(.*?)\]',blk.group(1),re.S):
            a=int(a,16)
            for i,h in enumerate(re.findall(rb'<([0-9A-Fa-f]+)>',arr)):
                mp[a+i]=bytes.fromhex(h.decode()).decode('utf-16-be','replace')
    return mp
fontcmap={}
for n,b in objs.items():
    m=re.search(rb'/ToUnicode (\d+) 0 R',b)
    if m:
        s=stream_of(objs[int(m.group(1))])
        if s: fontcmap[n]=parse_cmap(s)
# pages in order
def resolve(ref): return objs[int(ref)]
pages=[]
def walk(n):
    b=objs[n]
    if re.search(rb'/Type\s*/Pages',b):
        kids=re.search(rb'/Kids\s*\[(.*?)\]',b,re.S).group(1)
        for k in re.findall(rb'(\d+) 0 R',kids): walk(int(k))
    elif re.search(rb'/Type\s*/Page',b): pages.append(n)
root=None
for n,b in objs.items():
    if re.search(rb'/Type\s*/Catalog',b): root=int(re.search(rb'/Pages (\d+) 0 R',b).group(1))
walk(root)
def fonts_of(pb):
    m=re.search(rb'/Resources\s*(\d+) 0 R',pb)
    rb_=objs[int(m.group(1))] if m else pb
    m=re.search(rb'/Font\s*(\d+) 0 R',rb_)
    if m: fb=objs[int(m.group(1))]
    else:
        m=re.search(rb'/Font\s*<<(.*?)>>',rb_,re.S); fb=m.group(1) if m else b''
    return {k.decode():int(v) for k,v in re.findall(rb'/(\w+)\s+(\d+) 0 R',fb)}
for pi,p in enumerate(pages):
    pb=objs[p]; fonts=fonts_of(pb)
    conts=re.search(rb'/Contents\s*(\[.*?\]|\d+ 0 R)',pb,re.S).group(1)
    s=b''
    for c in re.findall(rb'(\d+) 0 R',conts): s+=stream_of(objs[int(c)]) or b''
    out=[];cur={};y=0.0;ly=None
    def emit(txt):
        global ly_
        pass
    state={'ly':None}
    for m in re.finditer(rb'/(\w+)\s+[\d.]+\s+Tf|\[(.*?)\]\s*TJ|<([0-9A-Fa-f]+)>\s*Tj|\((.*?)\)\s*Tj|(-?[\d.]+)\s+(-?[\d.]+)\s+T[dD]|(-?[\d.]+ ){5}(-?[\d.]+)\s+Tm|T\*|BT',s,re.S):
        t=m.group(0)
        txt=None
        if t==b'BT': y=0.0
        elif t.endswith(b'Tf'): cur=fontcmap.get(fonts.get(m.group(1).decode()),{})
        elif t.endswith(b'TJ'):
            txt=''
            for h,lit,num in re.findall(rb'<([0-9A-Fa-f]+)>|\(((?:\\.|[^\\)])*)\)|(-?[\d.]+)',m.group(2)):
                if h:
                    hs=h.decode()
                    for i in range(0,len(hs),4): txt+=cur.get(int(hs[i:i+4],16),'?')
                elif lit: txt+=lit.decode('latin1')
                elif num and float(num)<-200: txt+=' '
        elif t.endswith(b'Tj'):
            if m.group(3):
                hs=m.group(3).decode(); txt=''.join(cur.get(int(hs[i:i+4],16),'?') for i in range(0,len(hs),4))
            else: txt=m.group(4).decode('latin1')
        elif t.endswith(b'Td') or t.endswith(b'TD'): y+=float(m.group(6))
        elif t.endswith(b'Tm'): y=float(m.group(8))
        else: y-=12
        if txt is not None:
            if state['ly'] is None or abs(state['ly']-y)>2: out.append('\n')
            else: out.append('')
            state['ly']=y
            out.append(txt)
    print('\n=== PAGE',pi+1,'===');print(''.join(out))
