"""C35 packet stream framing round-trips and detects corruption (engine G)."""
from .. import inpkg


def run(ctx, test="^TestVerifC35$", what="packet framing"):
    n = 4000 if ctx.tier == "quick" else 48000
    ctx.cov["rule"] = ("each case = two PacketConns over a harness byte pipe that re-segments reads (chunk sets {1},{2},{3},{7},{16},{17},mixed,random<=4096), "
                       "handshake (unencrypted / AES with key on both sides, protocol versions 0-2, random buffer sizes), 1-9 packets of sizes "
                       "0,4,1-20,~4096,60-70k,~1 MiB,random written through WritePacket / WritePacket2 / NoFlush / header-body-trailer API; in 2/3 of the cases "
                       "exactly one byte at a uniformly chosen offset after the handshake is XORed with a non-zero value before the reader starts. Oracle: "
                       "clean => identical (type, body) sequence then io.EOF; corrupted => every returned packet equals the written one (prefix) and the "
                       "reader ends with a non-EOF error. Run under -race. distinct_nontrivial = distinct (handshake, key, protocol, chunking, corrupted region).")
    shards = 1 if ctx.tier == "quick" else 8
    tot = {}
    for sh in range(shards):
        r, ev = inpkg.run_inpkg(ctx, "rpcmon", "pkg/rpc/vmon", test, env={"VERIF_N": n // shards, "VERIF_SEED": ctx.seed * 100 + sh}, race=True, timeout=3000)
        sm = inpkg.absorb(ctx, r, ev, what)
        t = inpkg.merge_counters(ctx, sm)
        for k, v in t.items():
            tot[k] = tot.get(k, 0) + v
        for key, block in inpkg.race_reports(r):
            ctx.violation({"oracle": "race-detector", "class": key}, "data race reported in the %s workload:\n%s" % (what, block), {"race.txt": block})
    ctx.count(tot.get("connections", 0))
    ctx.require("connections", tot.get("connections", 0), n * 9 // 10)
    ctx.require("corruptions detected", tot.get("verdict_detected", 0), n // 3)
    ctx.require("clean streams", tot.get("verdict_clean-ok", 0), n // 5)
