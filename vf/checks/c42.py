"""C42 weighted semaphore never over-admits and never loses wakeups (engine I)."""
import os

from .. import core, inpkg

PKG = "internal/vkgo/pkg/semaphore"


def add_porcupine(ctx):
    r = ctx.run(["go", "get", "github.com/anishathalye/porcupine@v1.3.0"], cwd=ctx.scratch, timeout=300)
    ctx.need(r, "adding porcupine v1.3.0 to the scratch copy's go.mod (module cache, offline)")


def run(ctx):
    thorough = ctx.tier == "thorough"
    ctx.cov["rule"] = ("(a) deterministic histories: all sequences of length <= 3 (thorough 4) over 19 ops (TryAcquire/blocking Acquire/Release x weights 1-3, Acquire with "
                       "cancelled ctx, cancel a queued waiter, ForceAcquire, SetSize 0/1/2/4) from sizes 2 and 3, plus N random histories <= 45 ops incl. "
                       "sizes/weights at the int64 boundary; blocked waiters are real goroutines, the harness waits until each is queued; after every "
                       "step: results vs a 20-line model, admitted waiters return, non-admitted stay blocked, and an invariant walker under s.mu "
                       "(cur/size/waiter queue == model, first waiter does not fit). (b) under -race: concurrent histories (3-8 workers, TryAcquire/"
                       "Acquire with timeouts/Release/ForceAcquire/SetSize) recorded at the call boundary from one logical clock and checked with "
                       "porcupine against the admission model (success requires cur+n <= size at the linearization point; 20 s timeout => "
                       "inconclusive); quiescence: cur==0, no waiters; lost-wakeup stress: queued waiters, cancellations racing with piecewise "
                       "releases, then the first-waiter-fits invariant is read under the lock. Race reports are violations. "
                       "distinct_nontrivial = distinct random sequential histories + concurrent shapes.")
    ctx.make_scratch()
    add_porcupine(ctx)
    env = {"VERIF_EXLEN": 4 if thorough else 3, "VERIF_N": 60000 if thorough else 3000}
    r, ev = inpkg.run_inpkg(ctx, "inpkg/semaphore", PKG, "^TestVerifC42Seq$", env=env, timeout=3000)
    sm = inpkg.absorb(ctx, r, ev, "semaphore (deterministic histories)")
    t = inpkg.merge_counters(ctx, sm, "seq_")
    tot = {}
    for gmp in ([4, 16] if not thorough else [2, 4, 16, 32]):
        env2 = {"VERIF_N": 3000 if thorough else 250, "VERIF_LW": 30000 if thorough else 1500, "VERIF_SEED": ctx.seed * 100 + gmp}
        r, ev = inpkg.run_inpkg(ctx, "inpkg/semaphore", PKG, "^TestVerifC42Conc$", env=env2, race=True, timeout=3000, gomaxprocs=gmp)
        sm = inpkg.absorb(ctx, r, ev, "semaphore (concurrent, GOMAXPROCS=%d)" % gmp)
        t2 = inpkg.merge_counters(ctx, sm, "conc_")
        for k, v in t2.items():
            tot[k] = tot.get(k, 0) + v
        for key, block in inpkg.race_reports(r):
            ctx.violation({"oracle": "race-detector", "class": key}, "data race reported by the race detector in the semaphore workload:\n" + block, {"race.txt": block})
    ctx.cov["exhaustive"] = True
    ctx.count(t.get("seq_steps", 0) + tot.get("conc_operations", 0) + tot.get("conc_lost_wakeup_races", 0))
    ctx.require("exhaustive sequential histories", t.get("seq_exhaustive_histories", 0), 2 * 19 ** env["VERIF_EXLEN"])
    ctx.require("random sequential histories", t.get("seq_random_histories", 0), env["VERIF_N"] * 9 // 10)
    ctx.require("concurrent histories checked by porcupine", tot.get("conc_linearizable", 0), 400 if not thorough else 9000)
    ctx.require("lost-wakeup races", tot.get("conc_lost_wakeup_races", 0), 2500)
