"""C13 TL2 readers tolerate schema evolution and non-minimal encodings (engine A, schema-free part)."""
from .. import codec

RULE = ("schema-free part on packages generated from the repository schemas (outermost object only): minimal TL2 bytes re-encoded with the outermost size in "
        "huge (0xff) form, an empty object as a huge-form zero size => accepted, exactly consumed (suffix check), same value; declared size 1-4 bytes beyond "
        "the input => rejected. (Appended unknown fields, truncated bodies, explicit zero masks and nested non-minimal sizes need field boundaries and are "
        "exercised by the reference-model engine.) distinct_nontrivial = distinct (item, variant, transformation).")


def run(ctx):
    codec.simple_check(ctx, "c13", RULE, [("types", "types", 100), ("values", "values", 3000), ("huge-form sizes", "huge_form_sizes", 3000),
                                          ("oversize objects", "oversize_objects", 3000)], 40, 300, random_quick=2, random_thorough=20)
