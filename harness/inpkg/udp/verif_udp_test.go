//go:build verif

// In-package monitors for pkg/rpc/udp (C36 exactly-once transport, C37 ack bookkeeping).
// The driver reuses the simulator's step functions (doGoWriteStep, doGoReadStep, ...) but
// has its own grammar-aware command generator, unique message ids and its own monitors.
package udp

import (
	"encoding/binary"
	"encoding/json"
	"fmt"
	"math/rand"
	"net"
	"net/netip"
	"os"
	"runtime/debug"
	"sort"
	"strconv"
	"strings"
	"testing"
	"time"

	"github.com/VKCOM/tl/pkg/rpc/internal/gen/tlnetUdpPacket"
)

func vEnvInt(name string, def int) int {
	if s := os.Getenv(name); s != "" {
		if v, err := strconv.Atoi(s); err == nil {
			return v
		}
	}
	return def
}

func vEmit(v map[string]any) {
	b, _ := json.Marshal(v)
	fmt.Printf("@@%s\n", b)
}

type vStats struct {
	advisoryKinds map[string]int
	counters map[string]int
	distinct map[string]bool
	samples  []any
	viol     int
}

func (s *vStats) violation(oracle, class, desc string, input any) {
	s.viol++
	if s.viol > 25 {
		return
	}
	b, _ := json.Marshal(input)
	vEmit(map[string]any{"t": "violation", "oracle": oracle, "class": class, "desc": desc, "input": string(b)})
}

func (s *vStats) done(name string) {
	vEmit(map[string]any{"t": "summary", "name": name, "counters": s.counters, "distinct": len(s.distinct), "samples": s.samples, "violations": s.viol})
}

// ---------------------------------------------------------------- C36

type vCmd struct {
	Verb byte `json:"v"`
	A    int  `json:"a"`
	B    int  `json:"b"`
}

type vMsg struct {
	src, dst int
	payload  string
}

type vSim struct {
	fctx     *FuzzTransportContext
	sent     map[uint32]vMsg
	recv     map[uint32]int
	bad      []string
	nextID   uint32
	prefixes map[string][4]uint32 // connection key -> generation, out acked prefix, in received prefix, acks prefix
	restarts bool
	redeliveredAfterRestart int
	nAlloc, nFree, nDeliver, nSend int
	advisory                       []string
}

func vPayload(id uint32, size int) []byte {
	m := make([]byte, size)
	binary.LittleEndian.PutUint32(m, id)
	x := id*2654435761 + 12345
	for i := 4; i < size; i++ {
		x = x*1664525 + 1013904223
		m[i] = byte(x >> 24)
	}
	return m
}

func (s *vSim) handler(srcId, dstId int) MessageHandler {
	return func(message *[]byte, canSave bool) {
		m := append([]byte{}, (*message)...)
		s.fctx.deallocatedMessages++
		s.nDeliver++
		if len(m) < 4 {
			s.bad = append(s.bad, fmt.Sprintf("message of %d bytes delivered %d->%d (no id)", len(m), srcId, dstId))
			return
		}
		id := binary.LittleEndian.Uint32(m)
		want, ok := s.sent[id]
		if !ok {
			s.bad = append(s.bad, fmt.Sprintf("delivered message with unknown id %d (%d->%d, %d bytes)", id, srcId, dstId, len(m)))
			return
		}
		if want.src != srcId || want.dst != dstId {
			s.bad = append(s.bad, fmt.Sprintf("message %d submitted %d->%d delivered as %d->%d", id, want.src, want.dst, srcId, dstId))
		}
		if want.payload != string(m) {
			s.bad = append(s.bad, fmt.Sprintf("message %d (%d->%d) delivered with altered contents: %d bytes submitted, %d delivered", id, srcId, dstId, len(want.payload), len(m)))
		}
		s.recv[id]++
		if s.recv[id] > 1 && s.restarts {
			// generation bumps / restarts: the package itself gives up exactly-once there (its own fuzz driver lets prefixes move
			// backwards and messages be lost in that mode); the property speaks of the mode without restarts. Counted only.
			s.redeliveredAfterRestart++
		} else if s.recv[id] > 1 {
			s.bad = append(s.bad, fmt.Sprintf("message %d (%d->%d, %d bytes) delivered %d times", id, srcId, dstId, len(m), s.recv[id]))
		}
	}
}

func vNewSim(restarts bool) (*vSim, func()) {
	MaxChunkSize = MaxFuzzChunkSize
	s := &vSim{sent: map[uint32]vMsg{}, recv: map[uint32]int{}, prefixes: map[string][4]uint32{}, restarts: restarts, nextID: 1}
	fctx := &FuzzTransportContext{sentMessages: map[RandomMessage]int{}, receivedMessages: map[RandomMessage]int{}}
	s.fctx = fctx
	for tId := 0; tId < transports; tId++ {
		udpAddr, err := net.ResolveUDPAddr("udp", transportIdToAddress(tId))
		if err != nil {
			panic(err)
		}
		tIdCopy := tId
		fctx.ts[tId], err = NewTransport(
			MaxFuzzTransportMemory,
			[]string{"01234567890123456789012345678901"},
			nil,
			udpAddr,
			uint32(time.Now().Unix()),
			func(conn *Connection) {
				conn.MessageHandle = s.handler(addressToTransportId(conn.remoteAddr().String()), tIdCopy)
				conn.StreamLikeIncoming = testStreamLikeIncoming
			},
			func(_ *Connection) {},
			func(size int) *[]byte {
				fctx.allocatedMessages++
				s.nAlloc++
				m := make([]byte, size)
				return &m
			},
			func(*[]byte) { fctx.deallocatedMessages++; s.nFree++ },
			0, 0, false, false, nil, nil, nil, nil, nil, nil,
		)
		if err != nil {
			panic(err)
		}
	}
	return s, func() {
		for _, t := range fctx.ts {
			_ = t.Close()
		}
	}
}

func (s *vSim) newMessage(src, dst, size int) {
	id := s.nextID
	s.nextID++
	msg := vPayload(id, size)
	s.fctx.allocatedMessages++
	s.nSend++
	conn, err := s.fctx.ts[src].ConnectTo(
		netip.MustParseAddrPort(s.fctx.ts[dst].socketAddr.String()),
		s.handler(dst, src),
		testStreamLikeIncoming,
		nil,
	)
	if err != nil {
		panic(err)
	}
	s.sent[id] = vMsg{src, dst, string(msg)}
	if err = conn.SendMessage(&msg); err != nil {
		panic(err)
	}
	checkInvariants(s.fctx)
}

// monitors evaluated after every step
func (s *vSim) afterStep() string {
	for tId, t := range s.fctx.ts {
		if t.acquiredMemory > t.incomingMessagesMemoryLimit {
			return fmt.Sprintf("transport %d: acquiredMemory %d exceeds the limit %d", tId, t.acquiredMemory, t.incomingMessagesMemoryLimit)
		}
		if t.acquiredMemory < 0 {
			return fmt.Sprintf("transport %d: acquiredMemory %d is negative", tId, t.acquiredMemory)
		}
		for _, conn := range t.handshakeByPid {
			key := fmt.Sprintf("%d<-%s", tId, conn.remoteAddr().String())
			cur := [4]uint32{conn.generation, conn.outgoing.ackSeqNoPrefix, conn.incoming.ackPrefix, conn.acks.ackPrefix}
			old, ok := s.prefixes[key]
			if ok && old[0] == cur[0] && !s.restarts {
				if cur[1] < old[1] {
					return fmt.Sprintf("connection %s: acknowledged outgoing prefix moved backwards %d -> %d", key, old[1], cur[1])
				}
				if cur[2] < old[2] {
					return fmt.Sprintf("connection %s: received prefix moved backwards %d -> %d", key, old[2], cur[2])
				}
				if cur[3] < old[3] {
					return fmt.Sprintf("connection %s: acks-to-send prefix moved backwards %d -> %d", key, old[3], cur[3])
				}
			}
			s.prefixes[key] = cur
		}
	}
	if len(s.bad) > 0 {
		return s.bad[0]
	}
	return ""
}

// guarded runs one step. A panic raised by the simulator's own checkInvariants (a deferred, read-only walk that runs
// after the step body has completed) is recorded as advisory and the run continues: the package's internal
// invariants are not the property; the property's oracles (delivery, prefixes, memory) still decide.
// Any other panic (runtime errors inside the transport code) propagates and is a violation.
func (s *vSim) guarded(f func()) {
	defer func() {
		if r := recover(); r != nil {
			st := string(debug.Stack())
			if strings.Contains(st, "udp.checkInvariants(") {
				s.advisory = append(s.advisory, fmt.Sprint(r))
				return
			}
			panic(r)
		}
	}()
	f()
}

func (s *vSim) exec(c vCmd) {
	f := s.fctx
	switch c.Verb {
	case 'w':
		doGoWriteStep(f, c.A)
	case 'r':
		doGoReadStep(f, c.A, c.B)
	case 'e':
		doEncHdrRcv(f, c.A)
	case 't':
		switch c.B {
		case 0:
			doResendTimerBurn(f, c.A)
		case 1:
			doAckTimerBurn(f, c.A)
		case 2:
			doResendRequestTimerBurn(f, c.A)
		case 3:
			if s.restarts {
				doRegenerateTimerBurn(f, c.A)
			}
		}
	case 'd':
		l := len(f.network[c.A])
		if l > 0 {
			f.network[c.A] = append(f.network[c.A], f.network[c.A][c.B%l])
		}
	case 'l':
		l := len(f.network[c.A])
		if l > 0 {
			f.network[c.A][c.B%l] = f.network[c.A][l-1]
			f.network[c.A] = f.network[c.A][:l-1]
		}
	}
}

// one full round of the "repaired network": every timer fires, everything is written, read and handled
func (s *vSim) settleRound() {
	f := s.fctx
	pump := func() {
		for tId, t := range f.ts {
			n := len(t.handshakeByPid)
			for i := 0; i < n+1; i++ {
				s.guarded(func() { doGoWriteStep(f, tId) })
			}
		}
		for tId := range f.ts {
			for len(f.network[tId]) > 0 {
				s.guarded(func() { doGoReadStep(f, tId, 0) })
			}
		}
		for tId := range f.ts {
			for len(f.encHdrs[tId]) > 0 {
				s.guarded(func() { doEncHdrRcv(f, tId) })
			}
		}
		for tId, t := range f.ts {
			n := len(t.handshakeByPid)
			for i := 0; i < n+1; i++ {
				s.guarded(func() { doGoWriteStep(f, tId) })
			}
		}
	}
	for tId, t := range f.ts {
		for t.resendRequestTimers.Len() > 0 {
			s.guarded(func() { doResendRequestTimerBurn(f, tId) })
		}
	}
	pump()
	for i := 0; i < 2; i++ {
		for tId, t := range f.ts {
			for t.resendTimers.Len() > 0 {
				s.guarded(func() { doResendTimerBurn(f, tId) })
			}
		}
		pump()
	}
	for tId, t := range f.ts {
		for t.ackTimers.Len() > 0 {
			s.guarded(func() { doAckTimerBurn(f, tId) })
		}
	}
	pump()
}

func (s *vSim) fingerprint() string {
	f := s.fctx
	nrecv := 0
	for _, n := range s.recv {
		nrecv += n
	}
	var sum uint64
	pending := 0
	for tId, t := range f.ts {
		pending += len(f.network[tId]) + len(f.encHdrs[tId]) + t.resendTimers.Len() + t.ackTimers.Len() + t.resendRequestTimers.Len()
		for _, conn := range t.handshakeByPid {
			sum += uint64(conn.outgoing.ackSeqNoPrefix) + uint64(conn.incoming.ackPrefix)<<20 + uint64(conn.generation)<<40
			if conn.outgoing.messageQueue.Len() > 0 || conn.outgoing.timeoutedSeqNum < conn.outgoing.nextSeqNo || conn.incoming.windowChunks.LenMoreThan1() {
				pending++
			}
		}
	}
	return fmt.Sprintf("%d/%d/%d/%d/%d", nrecv, sum, pending, f.allocatedMessages, f.deallocatedMessages)
}

func (s *vSim) quiescent() bool {
	f := s.fctx
	for tId, t := range f.ts {
		// resend timers re-arm themselves and are not part of quiescence (the package's own settle loop ignores them too)
		if len(f.network[tId]) > 0 || len(f.encHdrs[tId]) > 0 || t.ackTimers.Len() > 0 || t.resendRequestTimers.Len() > 0 {
			return false
		}
		for _, conn := range t.handshakeByPid {
			if conn.outgoing.messageQueue.Len() > 0 || conn.outgoing.timeoutedSeqNum < conn.outgoing.nextSeqNo || conn.incoming.windowChunks.LenMoreThan1() {
				return false
			}
		}
	}
	return true
}

type vRunResult struct {
	msgs, delivered, steps, rounds int
	unreleased, advisory           int
	redelivered                    int
	advisoryFirst                  string
	viol                           string
	class                          string
}

func vRunOne(cmds []vCmdFull, restarts bool) (res vRunResult) {
	s, closeAll := vNewSim(restarts)
	defer closeAll()
	defer func() { res.redelivered = s.redeliveredAfterRestart }()
	defer func() {
		if r := recover(); r != nil {
			res.viol = fmt.Sprintf("panic: %v", r)
			res.class = "panic"
		}
	}()
	for i, c := range cmds {
		switch c.Verb {
		case 'n':
			if c.B > c.A && c.Size >= 4 {
				s.guarded(func() { s.newMessage(c.A, c.B, c.Size) })
			}
		default:
			s.guarded(func() { s.exec(vCmd{c.Verb, c.A, c.B}) })
			s.guarded(func() { checkInvariants(s.fctx) })
		}
		res.steps++
		if v := s.afterStep(); v != "" {
			res.viol = fmt.Sprintf("after command %d (%c %d %d): %s", i, c.Verb, c.A, c.B, v)
			res.class = "step-invariant"
			return
		}
	}
	// let the network settle; bounded progress: a round that changes nothing while not quiescent is a stall
	last := ""
	for round := 0; ; round++ {
		s.settleRound()
		res.rounds++
		if v := s.afterStep(); v != "" {
			res.viol = "while settling: " + v
			res.class = "step-invariant"
			return
		}
		if s.quiescent() {
			break
		}
		fp := s.fingerprint()
		if fp == last {
			if restarts {
				break // with restarts only the safety conditions are claimed
			}
			res.viol = fmt.Sprintf("network does not settle: round %d changed nothing but connections still have data to send (%s)\n%s", round, fp, s.dumpPending())
			res.class = "stall"
			return
		}
		last = fp
		if round > 400 {
			res.viol = "network still not quiescent after 400 full rounds"
			res.class = "stall"
			return
		}
	}
	res.advisory = len(s.advisory)
	if len(s.advisory) > 0 {
		res.advisoryFirst = s.advisory[0]
	}
	res.msgs = len(s.sent)
	for _, n := range s.recv {
		res.delivered += n
	}
	if restarts {
		return
	}
	ids := make([]int, 0, len(s.sent))
	for id := range s.sent {
		ids = append(ids, int(id))
	}
	sort.Ints(ids)
	for _, id := range ids {
		if s.recv[uint32(id)] != 1 {
			m := s.sent[uint32(id)]
			res.viol = fmt.Sprintf("at quiescence message %d (%d->%d, %d bytes) was delivered %d times (submitted once)", id, m.src, m.dst, len(m.payload), s.recv[uint32(id)])
			res.class = "exactly-once"
			return
		}
	}
	for tId, t := range s.fctx.ts {
		if t.acquiredMemory != 0 {
			res.viol = fmt.Sprintf("at quiescence transport %d still holds %d bytes of incoming message memory", tId, t.acquiredMemory)
			res.class = "memory-not-released"
			return
		}
	}
	// sender-side buffers are released lazily and are not part of the property; the counters are evidence only
	res.unreleased = s.nSend - s.nFree
	return
}

type vCmdFull struct {
	Verb byte `json:"v"`
	A    int  `json:"a"`
	B    int  `json:"b"`
	Size int  `json:"s,omitempty"`
}

// grammar-aware generator: weights per verb, bursts, focus on a few pairs
func vGenCmds(r *rand.Rand, n int, restarts bool) []vCmdFull {
	var out []vCmdFull
	focus := 2 + r.Intn(5)
	nodes := r.Perm(transports)[:focus]
	pick := func() int {
		if r.Intn(8) == 0 {
			return r.Intn(transports)
		}
		return nodes[r.Intn(len(nodes))]
	}
	sizes := []int{4, 8, 28, 32, 36, 60, 64, 68, 128, 200, 252}
	lossy := r.Intn(3) == 0
	for len(out) < n {
		x := r.Intn(100)
		switch {
		case x < 14:
			a, b := pick(), pick()
			if a > b {
				a, b = b, a
			}
			if a == b {
				continue
			}
			burst := 1
			if r.Intn(5) == 0 {
				burst = 2 + r.Intn(6)
			}
			for i := 0; i < burst; i++ {
				sz := sizes[r.Intn(len(sizes))]
				if r.Intn(4) == 0 {
					sz = 4 * (1 + r.Intn(63))
				}
				out = append(out, vCmdFull{'n', a, b, sz})
			}
		case x < 40:
			t := pick()
			k := 1 + r.Intn(3)
			for i := 0; i < k; i++ {
				out = append(out, vCmdFull{'w', t, 0, 0})
			}
		case x < 64:
			out = append(out, vCmdFull{'r', pick(), r.Intn(256), 0})
		case x < 78:
			out = append(out, vCmdFull{'e', pick(), 0, 0})
		case x < 88:
			tm := r.Intn(3)
			if restarts && r.Intn(4) == 0 {
				tm = 3
			}
			out = append(out, vCmdFull{'t', pick(), tm, 0})
		case x < 94:
			out = append(out, vCmdFull{'d', pick(), r.Intn(256), 0})
		default:
			if lossy || r.Intn(3) == 0 {
				out = append(out, vCmdFull{'l', pick(), r.Intn(256), 0})
			}
		}
	}
	return out
}

func TestVerifC36(t *testing.T) {
	seed := int64(vEnvInt("VERIF_SEED", 1))
	runs := vEnvInt("VERIF_N", 2000)
	r := rand.New(rand.NewSource(seed*9973 + 36))
	st := &vStats{counters: map[string]int{}, distinct: map[string]bool{}, advisoryKinds: map[string]int{}}
	for i := 0; i < runs; i++ {
		restarts := i%5 == 4
		cmds := vGenCmds(r, 100+r.Intn(400), restarts)
		res := vRunOne(cmds, restarts)
		st.counters["runs"]++
		st.counters["commands"] += res.steps
		st.counters["settle_rounds"] += res.rounds
		if res.advisory > 0 {
			st.counters["runs_where_the_packages_own_invariant_walk_panicked(advisory)"]++
			st.advisoryKinds[res.advisoryFirst]++
		}
		st.counters["sender_buffers_not_yet_released_at_quiescence"] += res.unreleased
		if restarts {
			st.counters["runs_with_restarts"]++
			st.counters["messages_delivered_again_after_a_restart(not_claimed)"] += res.redelivered
		} else {
			st.counters["messages_submitted"] += res.msgs
			st.counters["messages_delivered"] += res.delivered
		}
		nl, nd := 0, 0
		for _, c := range cmds {
			if c.Verb == 'l' {
				nl++
			}
			if c.Verb == 'd' {
				nd++
			}
		}
		st.counters["loss_commands"] += nl
		st.counters["duplication_commands"] += nd
		st.distinct[fmt.Sprintf("m%d/l%d/d%d/r%d/%v", res.msgs, nl/4, nd/4, res.rounds, restarts)] = true
		if res.viol != "" {
			st.violation("udp-sim", res.class, fmt.Sprintf("restarts=%v: %s", restarts, res.viol), cmds)
		}
		if i < 2 {
			b, _ := json.Marshal(cmds[:min(12, len(cmds))])
			st.samples = append(st.samples, map[string]any{"first_commands": string(b), "messages": res.msgs, "settle_rounds": res.rounds})
		}
	}
	for k, n := range st.advisoryKinds {
		vEmit(map[string]any{"t": "note", "msg": fmt.Sprintf("advisory: package's own invariant walk panicked in %d runs: %s", n, k)})
	}
	st.done("udp")
}

// replay of one command list (JSON in VERIF_REPLAY_FILE)
func TestVerifC36Replay(t *testing.T) {
	p := os.Getenv("VERIF_REPLAY_FILE")
	if p == "" {
		t.Skip()
	}
	b, err := os.ReadFile(p)
	if err != nil {
		t.Fatal(err)
	}
	var cmds []vCmdFull
	if err := json.Unmarshal(b, &cmds); err != nil {
		t.Fatal(err)
	}
	for _, restarts := range []bool{false, true} {
		res := vRunOne(cmds, restarts)
		t.Logf("restarts=%v: %+v", restarts, res)
	}
}

// ---------------------------------------------------------------- C37

type vAckModel struct {
	set map[uint32]bool
}

// vAllRecorded: every number of [from, to] is in the model (counting instead of walking when the range is wide); witness = an unrecorded number
func vAllRecorded(model map[uint32]bool, from, to uint32) (bool, uint32) {
	size := uint64(to) - uint64(from) + 1
	if size > 4096 {
		cnt := uint64(0)
		for x := range model {
			if x >= from && x <= to {
				cnt++
			}
		}
		if cnt == size {
			return true, 0
		}
		for x, k := from, 0; k < 4096; x, k = x+1, k+1 {
			if !model[x] {
				return false, x
			}
		}
		return false, from + 4096
	}
	for x := from; ; x++ {
		if !model[x] {
			return false, x
		}
		if x == to {
			return true, 0
		}
	}
}

// vNoneRecorded: no number of [from, to] is in the model; witness = a recorded number
func vNoneRecorded(model map[uint32]bool, from, to uint32) (bool, uint32) {
	for x := range model {
		if x >= from && x <= to {
			return false, x
		}
	}
	return true, 0
}

func vCheckAcks(st *vStats, a *AcksToSend, model map[uint32]bool, hist [][2]uint32) bool {
	got := uint64(0)
	// prefix
	if a.ackPrefix > 0 {
		if ok, w := vAllRecorded(model, 0, a.ackPrefix-1); !ok {
			st.violation("acks", "set", fmt.Sprintf("prefix [0..%d) contains unrecorded %d", a.ackPrefix, w), hist)
			return false
		}
		got += uint64(a.ackPrefix)
	}
	prevTo := int64(a.ackPrefix) - 1
	for rg := a.firstRange; rg != nil; rg = rg.next {
		if rg.ackFrom > rg.ackTo {
			st.violation("acks", "shape", fmt.Sprintf("inverted range [%d,%d]", rg.ackFrom, rg.ackTo), hist)
			return false
		}
		if int64(rg.ackFrom) <= prevTo+1 {
			st.violation("acks", "shape", fmt.Sprintf("range [%d,%d] is not strictly after and non-adjacent to the previous end %d (prefix %d)", rg.ackFrom, rg.ackTo, prevTo, a.ackPrefix), hist)
			return false
		}
		prevTo = int64(rg.ackTo)
		if ok, w := vAllRecorded(model, rg.ackFrom, rg.ackTo); !ok {
			st.violation("acks", "set", fmt.Sprintf("range [%d,%d] contains unrecorded %d", rg.ackFrom, rg.ackTo, w), hist)
			return false
		}
		got += uint64(rg.ackTo) - uint64(rg.ackFrom) + 1
	}
	if got != uint64(len(model)) {
		st.violation("acks", "set", fmt.Sprintf("structure holds %d numbers, %d were recorded", got, len(model)), hist)
		return false
	}
	// headers
	var enc tlnetUdpPacket.EncHeader
	a.BuildAck(&enc)
	if enc.IsSetPacketAckPrefix() {
		if ok, w := vAllRecorded(model, 0, enc.PacketAckPrefix); !ok {
			st.violation("acks", "ack-header", fmt.Sprintf("ack prefix %d acknowledges unrecorded %d", enc.PacketAckPrefix, w), hist)
			return false
		}
	} else if model[0] {
		st.violation("acks", "ack-header", "number 0 recorded but no ack prefix in the header", hist)
		return false
	}
	if enc.IsSetPacketAckFrom() != enc.IsSetPacketAckTo() {
		st.violation("acks", "ack-header", "ack_from/ack_to set inconsistently", hist)
		return false
	}
	if enc.IsSetPacketAckFrom() {
		if enc.PacketAckFrom > enc.PacketAckTo {
			st.violation("acks", "ack-header", fmt.Sprintf("ack range [%d,%d] inverted", enc.PacketAckFrom, enc.PacketAckTo), hist)
			return false
		}
		if ok, w := vAllRecorded(model, enc.PacketAckFrom, enc.PacketAckTo); !ok {
			st.violation("acks", "ack-header", fmt.Sprintf("ack range [%d,%d] acknowledges unrecorded %d", enc.PacketAckFrom, enc.PacketAckTo, w), hist)
			return false
		}
	}
	if enc.IsSetPacketAckSet() {
		for _, x := range enc.PacketAckSet {
			if !model[x] {
				st.violation("acks", "ack-header", fmt.Sprintf("ack set acknowledges unrecorded %d", x), hist)
				return false
			}
		}
	}
	if a.firstRange != nil && !enc.IsSetPacketAckFrom() {
		st.violation("acks", "ack-header", "holes exist but the header carries no ack range", hist)
		return false
	}
	var req tlnetUdpPacket.ResendRequest
	a.BuildNegativeAck(&req)
	for _, rr := range req.Ranges {
		if rr.PacketNumFrom > rr.PacketNumTo {
			st.violation("acks", "nack-header", fmt.Sprintf("resend range [%d,%d] inverted", rr.PacketNumFrom, rr.PacketNumTo), hist)
			return false
		}
		if ok, w := vNoneRecorded(model, rr.PacketNumFrom, rr.PacketNumTo); !ok {
			st.violation("acks", "nack-header", fmt.Sprintf("resend range [%d,%d] requests recorded %d", rr.PacketNumFrom, rr.PacketNumTo, w), hist)
			return false
		}
	}
	if a.firstRange != nil && len(req.Ranges) == 0 {
		st.violation("acks", "nack-header", "holes exist but no resend range is requested", hist)
		return false
	}
	var corrupted string
	a.checkInvariantsCommon(func(s string) { corrupted = s })
	_ = corrupted // the package's own checker is evidence only
	return true
}

func vAckHistory(st *vStats, hist [][2]uint32) bool {
	var a AcksToSend
	model := map[uint32]bool{}
	for i, h := range hist {
		a.AddAckRange(h[0], h[1])
		for x := h[0]; ; x++ {
			model[x] = true
			if x == h[1] {
				break
			}
		}
		st.counters["ack_ranges_recorded"]++
		if !vCheckAcks(st, &a, model, hist[:i+1]) {
			return false
		}
	}
	return true
}

func TestVerifC37(t *testing.T) {
	seed := int64(vEnvInt("VERIF_SEED", 1))
	n := vEnvInt("VERIF_N", 20000)
	exLen := vEnvInt("VERIF_EXLEN", 3)
	r := rand.New(rand.NewSource(seed*7907 + 37))
	st := &vStats{counters: map[string]int{}, distinct: map[string]bool{}}
	// exhaustive: all sequences of <= exLen ranges over a domain of 10
	const dom = 10
	var all [][2]uint32
	for f := uint32(0); f < dom; f++ {
		for to := f; to < dom; to++ {
			all = append(all, [2]uint32{f, to})
		}
	}
	var rec func(hist [][2]uint32, depth int) bool
	rec = func(hist [][2]uint32, depth int) bool {
		if depth == 0 {
			return true
		}
		for _, rg := range all {
			h := append(append([][2]uint32{}, hist...), rg)
			st.counters["exhaustive_histories"]++
			if !vAckHistory(st, h) {
				return false
			}
			if !rec(h, depth-1) {
				return false
			}
		}
		return true
	}
	// the recursion re-checks prefixes; cost 55^exLen histories
	rec(nil, exLen)
	st.counters["exhaustive_len"] = exLen
	// random long histories, also far from zero (no wrap: the sequence space is not claimed to wrap)
	for i := 0; i < n && st.viol < 5; i++ {
		dom := uint32(12 + r.Intn(60))
		k := 1 + r.Intn(14)
		var hist [][2]uint32
		if r.Intn(4) == 0 {
			// a prefix reaching near 2^32 is too expensive to model element by element; use sparse far ranges only through
			// the structural shape checks of a small translated copy
			dom = uint32(200 + r.Intn(400))
		}
		for j := 0; j < k; j++ {
			f := r.Uint32() % dom
			to := f + r.Uint32()%5
			if r.Intn(3) == 0 {
				f = 0
			}
			if r.Intn(6) == 0 {
				to = f
			}
			hist = append(hist, [2]uint32{f, to})
		}
		if i%5 == 4 {
			// sparse ranges far from the prefix (the domain is 32 bits wide and does not wrap): short ranges around 2^31, 2^31+2^30 and just below 2^32,
			// mixed with ranges near zero; the prefix itself stays small, so the element-wise model stays small
			bases := []uint32{1<<31 - 3, 1 << 31, 1<<31 + 7, 3 << 30, 1<<32 - 12, 1 << 30, 1<<31 + 1<<29}
			hist = hist[:len(hist)/2]
			for j := 0; j < 1+r.Intn(5); j++ {
				f := bases[r.Intn(len(bases))] + uint32(r.Intn(6))
				to := f + uint32(r.Intn(4))
				if to < f {
					to = 1<<32 - 1
				}
				hist = append(hist, [2]uint32{f, to})
			}
			r.Shuffle(len(hist), func(a, b int) { hist[a], hist[b] = hist[b], hist[a] })
			st.counters["far_histories"]++
		}
		st.counters["random_histories"]++
		st.distinct[fmt.Sprint(hist)] = true
		vAckHistory(st, hist)
		if i < 3 {
			st.samples = append(st.samples, fmt.Sprint(hist))
		}
	}
	st.done("acks")
}

func (s *vSim) dumpPending() string {
	out := ""
	for tId, t := range s.fctx.ts {
		out += fmt.Sprintf("T%d net=%d enc=%d resendT=%d ackT=%d rrT=%d mem=%d\n", tId, len(s.fctx.network[tId]), len(s.fctx.encHdrs[tId]), t.resendTimers.Len(), t.ackTimers.Len(), t.resendRequestTimers.Len(), t.acquiredMemory)
		for _, conn := range t.handshakeByPid {
			a := conn.outgoing.messageQueue.Len() > 0
			b := conn.outgoing.timeoutedSeqNum < conn.outgoing.nextSeqNo
			c := conn.incoming.windowChunks.LenMoreThan1()
			if a || b || c {
				out += fmt.Sprintf("   conn ->%s gen=%d queue=%v unackedSuffix=%v(timeouted=%d nonTimeouted=%d notSended=%d next=%d ackPrefix=%d) holes=%v flags=%b\n", conn.remoteAddr(), conn.generation, a, b,
					conn.outgoing.timeoutedSeqNum, conn.outgoing.nonTimeoutedSeqNum, conn.outgoing.notSendedSeqNum, conn.outgoing.nextSeqNo, conn.outgoing.ackSeqNoPrefix, c, conn.flags)
			}
		}
	}
	return out
}

func vToFuzzBytes(cmds []vCmdFull) []byte {
	var out []byte
	for _, c := range cmds {
		switch c.Verb {
		case 'n':
			out = append(out, 'n', byte(c.A|c.B<<4), byte(c.Size))
		case 'w', 'e':
			out = append(out, c.Verb, byte(c.A))
		case 'r', 'd', 'l':
			out = append(out, c.Verb, byte(c.A), byte(c.B))
		case 't':
			out = append(out, 't', byte(c.A|c.B<<4))
		}
	}
	return append(out, 0, 0, 0)
}

// the same command list through the package's own simulator entry point
func TestVerifC36ReplayOwnSim(t *testing.T) {
	p := os.Getenv("VERIF_REPLAY_FILE")
	if p == "" {
		t.Skip()
	}
	b, _ := os.ReadFile(p)
	var s string
	var cmds []vCmdFull
	if json.Unmarshal(b, &s) == nil {
		b = []byte(s)
	}
	if err := json.Unmarshal(b, &cmds); err != nil {
		t.Fatal(err)
	}
	func() {
		defer func() {
			if r := recover(); r != nil {
				t.Logf("FuzzDyukov panicked: %v", r)
			}
		}()
		FuzzDyukov(vToFuzzBytes(cmds), false)
		t.Logf("FuzzDyukov finished normally")
	}()
	res := vRunOne(cmds, false)
	t.Logf("own driver: %+v", res)
}
