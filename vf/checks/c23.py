"""C23 implicit constructor tags follow the canonical-form CRC32 rule."""
from .. import inpkg


def run(ctx):
    n = 3000 if ctx.tier == "quick" else 120000
    ctx.cov["rule"] = ("combinators from an own syntactic generator (own AST); expected tag = IEEE CRC32 of an independently written canonical "
                       "printer (one line, no braces, single spaces, '[ T ]', '%' only before upper-case names, arithmetic folded, '!' dropped) or the "
                       "explicit tag verbatim; each combinator rendered in 8 layouts (whitespace, newlines, // comments, (A b) vs A<b>, (1+2) vs 3, "
                       "redundant parentheses); every layout must parse to the expected tag. Known answers from the documents anchor the rule. "
                       "distinct_nontrivial = distinct canonical forms.")
    r, ev = inpkg.run_inpkg(ctx, "inpkg/tlast", "internal/tlast", "^TestVerifC23$", env={"VERIF_N": n}, timeout=1500)
    sm = inpkg.absorb(ctx, r, ev, "CRC32 rule")
    t = inpkg.merge_counters(ctx, sm)
    ctx.count(t.get("layouts", 0))
    ctx.require("layouts parsed", t.get("layout_parsed", 0), n * 4)
    ctx.require("known answers", t.get("known_answers", 0), 10)
    ctx.assumptions.append("inside '[ ... ]' the generator only emits element types without arguments and without '%lowercase', where the documented rule is unambiguous")
