"""C02 TL1 readers accept only canonical encodings (engine A)."""
from .. import codec

RULE = ("per TL1 item and variant (bare and boxed): writer outputs of FillRandom / hostile values, then 6 structure-blind or tag-aware mutations each (truncate, bit flip, "
        "byte set, word swap/dup/delete, append, tag -> other valid tag / special word, word +-k, huge counts, length-byte games, zero -> non-zero, insert/delete "
        "byte, zero run), REF-free non-canonical rewrites located in the writer output (tiny string re-encoded in medium form, non-zero padding byte, Bool tag -> "
        "non-boolean word, known constructor tag -> unknown word) and pure random byte strings. Oracle: accepted => rest is a suffix of the input and "
        "write(decoded) == consumed prefix; items whose Go type graph contains a map: rewrite must be a fixpoint, not longer than the prefix, same JSON. "
        "distinct_nontrivial = distinct (item, mutation kind, accepted?).")


def run(ctx):
    t = codec.simple_check(ctx, "c02", RULE, [("types", "types", 120), ("inputs", "tl1_inputs", 100000), ("accepted inputs", "tl1_accepted", 10000),
                                              ("rejected inputs", "tl1_rejected", 50000), ("non-minimal string forms rejected", "rejected_string-medium-form", 200),
                                              ("non-zero paddings rejected", "rejected_string-nonzero-padding", 200), ("non-boolean Bool tags rejected", "rejected_bool-tag-not-boolean", 200),
                                              ("unknown constructor tags rejected", "rejected_constructor-tag-unknown", 200)],
                           30, 200, count_keys=("tl1_inputs",), configs_quick=("tl2all", "tl1only"), random_quick=3, random_thorough=30)
