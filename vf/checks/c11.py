"""C11 wire formats match an independent reference codec (engine B; TL1 part)."""
from .. import refdiff


def run(ctx):
    thorough = ctx.tier == "thorough"
    ctx.make_scratch()
    n = 40 if thorough else 5
    tot = {}
    for i in [-1] + list(range(n)):  # -1: the fixed schema of rarely reached shapes (second mask block, flags-only objects, boundary strings)
        cnt, _ = refdiff.run_schema(ctx, i, values=60 if thorough else 25, fills=60 if thorough else 25, tl2=True)
        for k, v in cnt.items():
            tot[k] = tot.get(k, 0) + v
    ctx.cov.setdefault("counters", {}).update({"ref_" + k: v for k, v in tot.items()})
    ctx.cov["rule"] = ("N random TL1 schemas from SchemaGen (structs with 0-10 fields, local and external field masks incl. nested and bit 31, nat-sized tuples and builtin "
                       "arrays, vectors, Maybe, Bool, true, string/int dictionaries, pairs, unions, enums, typedefs, templates with nat parameters, recursion through "
                       "masked fields, bare/boxed/%-spellings, explicit and implicit (CRC32) tags), each generated and built with the current tl2gen. RefCodec-TL1 (an "
                       "independent Python implementation of the documented TL1 format over the generator's own AST) draws hostile abstract values. (a) its bare "
                       "and boxed bytes (+4-byte suffix) must be accepted by generated readers with the same consumed length and re-encoded identically; (b) mutated "
                       "bytes: generated accepts <=> reference accepts, same length and re-encoding; (c) FillRandom output of generated code must be decoded by the "
                       "reference to a value that re-encodes to the same bytes; (d) TL2: every reference-drawn value is given to generated code as TL1 and the TL2 bytes it writes "
                       "must equal RefCodec-TL2 (an independent encoder of the documented TL2 view: varlen sizes, presence-mask blocks with the variant-index bit, slots incl. '#' and "
                       "true fields, true bits without bytes, counted arrays, dictionaries as arrays of key/value objects, Maybe as a two-variant object, omission of empty values "
                       "only where the position allows it). TL2 acceptance is not modelled (C12, C13 observe it). distinct_nontrivial = distinct (schema, item, "
                       "case kind, outcome).")
    ctx.count(tot.get("reads", 0) + tot.get("fills", 0))
    ctx.require("schemas compared", tot.get("schemas_compared", 0), max(2, n * 6 // 10))
    ctx.require("reads compared", tot.get("reads", 0), 3000)
    ctx.require("accepted agreements", tot.get("agree_accept", 0), 1000)
    ctx.require("rejected agreements", tot.get("agree_reject", 0), 500)
    ctx.require("FillRandom outputs decoded by the reference", tot.get("agree_fill", 0), 300)
    ctx.require("TL2 encodings equal to the reference", tot.get("agree_tl2", 0), 200)
