"""C10 byte-slice type variants behave like string variants (engine A)."""
from .. import codec

RULE = ("for every item whose CreateObjectBytes() has a different concrete type: inputs = TL1 boxed/bare, TL2 and JSON written by the string variant (sorted, "
        "duplicate-free dictionaries) plus byte mutations the string variant accepts canonically; both variants decode the same input; acceptance, consumed "
        "length and all encodings (TL1, TL2, JSON) of the two results must be identical. distinct_nontrivial = distinct (item, format, snapshot bucket).")


def run(ctx):
    codec.simple_check(ctx, "c10", RULE, [("types with a []byte variant", "types", 30), ("inputs", "inputs", 10000), ("agreements", "agreements", 8000)], 40, 300,
                       count_keys=("inputs",), random_quick=2, random_thorough=20)
