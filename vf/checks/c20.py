"""C20 TL2 parser is total with in-range error positions."""
from . import c19


def run(ctx):
    c19.run(ctx, tl2=True, test="^TestVerifC20$")
