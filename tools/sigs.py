#!/usr/bin/env python3
import json,sys,glob,os
for pid in sys.argv[1:]:
    for d in sorted(glob.glob('/verif/replay/%s/*/violation.json'%pid), key=lambda p:int(p.split('/')[-2])):
        e=json.load(open(d))
        s=e['sig']
        print(pid, d.split('/')[-2], s.get('oracle'), s.get('class'), s.get('item'), s.get('variant'), s.get('schema'))
