//go:build verif

// Monitors for pkg/rpc (C35 packet framing, C38 call/response matching, C39 server limits, C40 extras).
// Placed by /verif at pkg/rpc/vmon/ in a scratch copy. Uses only the public API of pkg/rpc plus the
// generated extras type (for FillRandom).
package vmon

import (
	"bytes"
	"context"
	"encoding/binary"
	"encoding/json"
	"errors"
	"fmt"
	"io"
	"math/rand"
	"net"
	"os"
	"strconv"
	"strings"
	"sync"
	"sync/atomic"
	"testing"
	"time"

	"github.com/VKCOM/tl/internal/vkgo/pkg/basictl"
	"github.com/VKCOM/tl/pkg/rpc"
	rpctl "github.com/VKCOM/tl/pkg/rpc/internal/gen/tl"
)

func vEnvInt(name string, def int) int {
	if s := os.Getenv(name); s != "" {
		if v, err := strconv.Atoi(s); err == nil {
			return v
		}
	}
	return def
}

var emitMu sync.Mutex

func vEmit(v map[string]any) {
	b, _ := json.Marshal(v)
	emitMu.Lock()
	fmt.Printf("@@%s\n", b)
	emitMu.Unlock()
}

type vStats struct {
	mu       sync.Mutex
	counters map[string]int
	distinct map[string]bool
	samples  []any
	viol     int
}

func newStats() *vStats { return &vStats{counters: map[string]int{}, distinct: map[string]bool{}} }

func (s *vStats) add(k string, n int) {
	s.mu.Lock()
	s.counters[k] += n
	s.mu.Unlock()
}
func (s *vStats) dist(k string) {
	s.mu.Lock()
	s.distinct[k] = true
	s.mu.Unlock()
}

func (s *vStats) violation(oracle, class, desc string, input any) {
	s.mu.Lock()
	s.viol++
	n := s.viol
	s.mu.Unlock()
	if n > 20 {
		return
	}
	b, _ := json.Marshal(input)
	if len(b) > 6000 {
		b = b[:6000]
	}
	vEmit(map[string]any{"t": "violation", "oracle": oracle, "class": class, "desc": desc, "input": string(b)})
}

func (s *vStats) done(name string) {
	s.mu.Lock()
	defer s.mu.Unlock()
	vEmit(map[string]any{"t": "summary", "name": name, "counters": s.counters, "distinct": len(s.distinct), "samples": s.samples, "violations": s.viol})
}

// ---------------------------------------------------------------- C35: packet stream framing

// one-directional byte pipe with re-chunking; a gate can hold back readers until the writer has finished so that
// one byte at a chosen absolute offset can be corrupted in place
type vStream struct {
	mu     sync.Mutex
	cond   *sync.Cond
	buf    []byte
	pos    int
	closed bool
	gated  bool
	chunk  func() int
}

func newStream(chunk func() int) *vStream {
	s := &vStream{chunk: chunk}
	s.cond = sync.NewCond(&s.mu)
	return s
}

func (s *vStream) Write(p []byte) (int, error) {
	s.mu.Lock()
	defer s.mu.Unlock()
	if s.closed {
		return 0, io.ErrClosedPipe
	}
	s.buf = append(s.buf, p...)
	s.cond.Broadcast()
	return len(p), nil
}

func (s *vStream) Read(p []byte) (int, error) {
	s.mu.Lock()
	defer s.mu.Unlock()
	for (s.gated || s.pos == len(s.buf)) && !(s.closed && !s.gated) {
		s.cond.Wait()
	}
	if s.pos == len(s.buf) {
		return 0, io.EOF
	}
	n := s.chunk()
	if n > len(p) {
		n = len(p)
	}
	if n > len(s.buf)-s.pos {
		n = len(s.buf) - s.pos
	}
	copy(p, s.buf[s.pos:s.pos+n])
	s.pos += n
	return n, nil
}

func (s *vStream) Close() {
	s.mu.Lock()
	s.closed = true
	s.cond.Broadcast()
	s.mu.Unlock()
}

func (s *vStream) gate(on bool) {
	s.mu.Lock()
	s.gated = on
	s.cond.Broadcast()
	s.mu.Unlock()
}

func (s *vStream) total() int {
	s.mu.Lock()
	defer s.mu.Unlock()
	return len(s.buf)
}

type vConn struct {
	in, out *vStream
	la, ra  net.Addr
}

func (c *vConn) Read(p []byte) (int, error)         { return c.in.Read(p) }
func (c *vConn) Write(p []byte) (int, error)        { return c.out.Write(p) }
func (c *vConn) Close() error                       { c.in.Close(); c.out.Close(); return nil }
func (c *vConn) LocalAddr() net.Addr                { return c.la }
func (c *vConn) RemoteAddr() net.Addr               { return c.ra }
func (c *vConn) SetDeadline(t time.Time) error      { return nil }
func (c *vConn) SetReadDeadline(t time.Time) error  { return nil }
func (c *vConn) SetWriteDeadline(t time.Time) error { return nil }

type vPkt struct {
	Tip  uint32
	Body []byte
}

type vPCCase struct {
	Seed      int64  `json:"seed"`
	Key       bool   `json:"key"`
	Protocol  uint32 `json:"protocol"`
	Handshake bool   `json:"handshake"`
	Corrupt   bool   `json:"corrupt"`
	ChunkMode int    `json:"chunk_mode"`
	Offset    int    `json:"offset"`
	Xor       byte   `json:"xor"`
	Packets   int    `json:"packets"`
	Region    string `json:"region"`
	Big       int    `json:"big,omitempty"` // != 0: one packet whose body is Big bytes (largest sizes the writer accepts)
}

var vChunkSets = [][]int{{1}, {2}, {3}, {7}, {16}, {17}, {1, 2, 3, 7, 16, 17}, {4096}, {1, 4096}}

func vRunPC(cs *vPCCase) (verdict string, detail string) {
	r := rand.New(rand.NewSource(cs.Seed))
	chunks := vChunkSets[cs.ChunkMode%len(vChunkSets)]
	var cmu sync.Mutex
	cr := rand.New(rand.NewSource(cs.Seed*31 + 7))
	chunk := func() int {
		cmu.Lock()
		defer cmu.Unlock()
		if len(chunks) == 1 && chunks[0] == 4096 {
			return 1 + cr.Intn(4096)
		}
		return chunks[cr.Intn(len(chunks))]
	}
	c2s, s2c := newStream(chunk), newStream(chunk)
	a1 := &net.TCPAddr{IP: net.IPv4(127, 0, 0, 1), Port: 1111}
	a2 := &net.TCPAddr{IP: net.IPv4(127, 0, 0, 1), Port: 2222}
	cc := &vConn{in: s2c, out: c2s, la: a1, ra: a2}
	sc := &vConn{in: c2s, out: s2c, la: a2, ra: a1}
	bufSizes := []int{64, 512, 4096, 70000, 17, 50, 100, 1000, 4099} // incl. sizes that are no multiple of the cipher block
	cpc := rpc.NewPacketConn(cc, bufSizes[r.Intn(len(bufSizes))], bufSizes[r.Intn(len(bufSizes))])
	spc := rpc.NewPacketConn(sc, bufSizes[r.Intn(len(bufSizes))], bufSizes[r.Intn(len(bufSizes))])
	key := ""
	if cs.Key {
		key = "0123456789abcdef0123456789abcdef"
	}
	if cs.Handshake {
		var wg sync.WaitGroup
		var e1, e2 error
		wg.Add(2)
		go func() {
			defer wg.Done()
			e1 = cpc.HandshakeClient(key, nil, key != "", 1, 0, time.Minute, cs.Protocol)
		}()
		go func() {
			defer wg.Done()
			var keys []string
			if key != "" {
				keys = []string{key}
			}
			_, _, e2 = spc.HandshakeServer(keys, nil, key != "", 1, time.Minute)
		}()
		wg.Wait()
		if e1 != nil || e2 != nil {
			return "handshake-failed", fmt.Sprintf("client: %v / server: %v", e1, e2)
		}
		if cs.Key && (!cpc.Encrypted() || !spc.Encrypted()) {
			return "handshake-failed", "key given on both sides with forced encryption but the connection is not encrypted"
		}
	}
	hsBytes := c2s.total()
	// sender history
	var sent []vPkt
	n := 1 + r.Intn(9)
	if cs.Big != 0 {
		n = 1
	}
	cs.Packets = n
	for i := 0; i < n; i++ {
		var sz int
		if cs.Big != 0 {
			b := make([]byte, cs.Big)
			r.Read(b[:4096])
			copy(b[len(b)-4096:], b[:4096])
			sent = append(sent, vPkt{Tip: 0x10000000 + uint32(r.Intn(1<<24)), Body: b})
			continue
		}
		switch r.Intn(10) {
		case 0:
			sz = 0
		case 1:
			sz = 4
		case 2:
			sz = 1 + r.Intn(20)
		case 3:
			sz = 4090 + r.Intn(16)
		case 4:
			if r.Intn(6) == 0 {
				sz = 1<<20 - r.Intn(8)
			} else {
				sz = 60000 + r.Intn(10000)
			}
		default:
			sz = r.Intn(600)
		}
		if cs.ChunkMode%len(vChunkSets) < 7 && sz > 5000 {
			sz = 4000 + sz%1000 // byte-sized read chunks: keep the stream short
		}
		if cpc.ProtocolVersion() == 0 {
			sz &^= 3
		}
		b := make([]byte, sz)
		r.Read(b)
		sent = append(sent, vPkt{Tip: 0x10000000 + uint32(r.Intn(1<<24)), Body: b})
	}
	c2s.gate(true) // reader sees nothing until everything is written (and possibly corrupted)
	var boundaries []int
	for _, p := range sent {
		var err error
		switch r.Intn(5) {
		case 0:
			err = cpc.WritePacket(p.Tip, p.Body, 0)
		case 1:
			k := 0
			if len(p.Body) > 0 {
				k = r.Intn(len(p.Body) + 1)
			}
			err = cpc.WritePacket2(p.Tip, p.Body[:k], p.Body[k:], 0)
		case 2:
			err = cpc.WritePacketNoFlush(p.Tip, p.Body, 0)
		case 3:
			// header/body/trailer API in several pieces
			if err = cpc.WritePacketHeaderUnlocked(p.Tip, len(p.Body), 0); err == nil {
				rest := p.Body
				for len(rest) > 0 && err == nil {
					k := 1 + r.Intn(len(rest))
					err = cpc.WritePacketBodyUnlocked(rest[:k])
					rest = rest[k:]
				}
				cpc.WritePacketTrailerUnlocked()
			}
			if err == nil && r.Intn(2) == 0 {
				err = cpc.FlushUnlocked()
			}
		default:
			err = cpc.WritePacketNoFlushUnlocked(p.Tip, p.Body, 0)
			if err == nil {
				err = cpc.FlushUnlocked()
			}
		}
		if err != nil {
			if cs.Big != 0 {
				return "big-rejected-by-writer", err.Error() // the writer may refuse a size; what it accepts must be readable
			}
			return "write-failed", err.Error()
		}
		boundaries = append(boundaries, c2s.total())
	}
	if err := cpc.Flush(); err != nil {
		return "write-failed", err.Error()
	}
	total := c2s.total()
	c2s.Close()
	cs.Region = "none"
	if cs.Corrupt {
		if total <= hsBytes {
			return "nothing-written", ""
		}
		cs.Offset = hsBytes + r.Intn(total-hsBytes)
		cs.Xor = byte(1 + r.Intn(255))
		c2s.mu.Lock()
		c2s.buf[cs.Offset] ^= cs.Xor
		c2s.mu.Unlock()
		if !cs.Key || !cs.Handshake {
			// unencrypted layout is known: [len seq type body crc]
			off := cs.Offset - hsBytes
			start := 0
			for _, p := range sent {
				l := 12 + len(p.Body) + 4
				if off < start+l {
					o := off - start
					switch {
					case o < 4:
						cs.Region = "length"
					case o < 8:
						cs.Region = "seq"
					case o < 12:
						cs.Region = "type"
					case o < 12+len(p.Body):
						cs.Region = "body"
					default:
						cs.Region = "crc"
					}
					break
				}
				start += l
			}
		} else {
			cs.Region = fmt.Sprintf("encrypted-block-offset-%d", (cs.Offset-hsBytes)%16)
			if cs.Offset >= total-16 {
				cs.Region = "encrypted-last-block"
			}
		}
	}
	c2s.gate(false)
	var got []vPkt
	var rerr error
	resCh := make(chan struct{})
	go func() {
		defer close(resCh)
		var body []byte
		for {
			var tip uint32
			var err error
			tip, body, err = spc.ReadPacket(body, 0)
			if err != nil {
				rerr = err
				return
			}
			got = append(got, vPkt{tip, append([]byte{}, body...)})
		}
	}()
	select {
	case <-resCh:
	case <-time.After(60 * time.Second):
		return "watchdog", "reader did not finish within 60s"
	}
	for i, g := range got {
		if i >= len(sent) {
			return "VIOLATION", fmt.Sprintf("reader returned %d packets, only %d were written (final err=%v)", len(got), len(sent), rerr)
		}
		if g.Tip != sent[i].Tip || !bytes.Equal(g.Body, sent[i].Body) {
			return "VIOLATION", fmt.Sprintf("packet %d returned altered: type %08x/%08x, body %d/%d bytes, equal=%v (final err=%v)", i, g.Tip, sent[i].Tip, len(g.Body), len(sent[i].Body), bytes.Equal(g.Body, sent[i].Body), rerr)
		}
	}
	if !cs.Corrupt {
		if len(got) != len(sent) || rerr != io.EOF {
			return "VIOLATION", fmt.Sprintf("clean stream: %d of %d packets read, final err=%v (want all packets then io.EOF)", len(got), len(sent), rerr)
		}
		return "clean-ok", ""
	}
	if rerr == nil || rerr == io.EOF {
		return "VIOLATION", fmt.Sprintf("byte at offset %d (region %s) corrupted (xor %02x) but the reader reported %d of %d packets and a clean end of stream (err=%v)", cs.Offset, cs.Region, cs.Xor, len(got), len(sent), rerr)
	}
	return "detected", ""
}

func TestVerifC35(t *testing.T) {
	seed := int64(vEnvInt("VERIF_SEED", 1))
	n := vEnvInt("VERIF_N", 3000)
	st := newStats()
	var wg sync.WaitGroup
	par := 8
	per := n / par
	for w := 0; w < par; w++ {
		wg.Add(1)
		go func(w int) {
			defer wg.Done()
			for i := 0; i < per; i++ {
				id := int64(w*per + i)
				r := rand.New(rand.NewSource(seed*1000003 + id))
				cs := &vPCCase{Seed: seed*7919 + id, Handshake: true, Corrupt: r.Intn(3) != 0, ChunkMode: r.Intn(len(vChunkSets)), Protocol: uint32(r.Intn(3))}
				cs.Key = cs.Handshake && r.Intn(2) == 0
				v, d := vRunPC(cs)
				st.add("connections", 1)
				st.add("verdict_"+v, 1)
				st.add("packets_written", cs.Packets)
				st.dist(fmt.Sprintf("hs=%v key=%v proto=%d chunk=%d region=%s", cs.Handshake, cs.Key, cs.Protocol, cs.ChunkMode, cs.Region))
				if cs.Corrupt {
					st.add("corruption_region_"+cs.Region[:min(len(cs.Region), 9)], 1)
				}
				switch v {
				case "VIOLATION":
					cl := "altered-or-undetected"
					st.violation("packetconn", cl, d, cs)
				case "handshake-failed", "write-failed":
					st.violation("packetconn", v, d, cs)
				case "watchdog":
					vEmit(map[string]any{"t": "inconclusive", "msg": "packetconn: " + d})
				}
				if id < 3 {
					st.mu.Lock()
					st.samples = append(st.samples, cs)
					st.mu.Unlock()
				}
			}
		}(w)
	}
	wg.Wait()
	// boundary: the largest packets the writer accepts must be read back identically
	for i, big := range []int{16<<20 - 17, 16<<20 - 20, 16<<20 - 16} {
		for _, key := range []bool{false, true} {
			cs := &vPCCase{Seed: seed*31 + int64(i), Handshake: true, Key: key, ChunkMode: 7, Protocol: uint32(2 - i%2*2), Big: big} // protocol 2, 0 (sizes multiple of 4), 2
			v, d := vRunPC(cs)
			st.add("max_size_packets_"+v, 1)
			if v == "VIOLATION" || v == "handshake-failed" {
				st.violation("packetconn", "max-size-packet", fmt.Sprintf("packet with a %d-byte body: %s", big, d), cs)
			}
		}
	}
	st.done("packetconn")
}

// ---------------------------------------------------------------- C38 / C39 / C40: real client and server

const vMagic = uint32(0x12345678) // first word of every request/response body: not an rpc wrapper tag

type vCallPlan struct {
	ID        uint64
	Kind      int // 0 echo, 1 rpc error, 2 slow echo, 3 never answers (client times out), 4 cancelled by client
	Pad       int
	ErrCode   int32
	SleepUs   int
	TimeoutMs int
	TL2       bool
	Extra     rpc.RequestExtra
	RespExtra rpc.ResponseExtra
	UseExtra  bool
}

func vBody(id uint64, kind int, pad int) []byte {
	b := binary.LittleEndian.AppendUint32(nil, vMagic)
	b = binary.LittleEndian.AppendUint64(b, id)
	b = binary.LittleEndian.AppendUint32(b, uint32(kind))
	x := uint32(id)*2654435761 + 1
	for i := 0; i < pad; i++ {
		x = x*1664525 + 1013904223
		b = binary.LittleEndian.AppendUint32(b, x)
	}
	return b
}

type vSeen struct {
	extra    rpc.RequestExtra
	tl2      bool
	actor    int64
	resp     rpc.ResponseExtra
	respMask uint32
}

type vServer struct {
	srv       *rpc.Server
	ln        net.Listener
	cur, high atomic.Int64
	memHigh   atomic.Int64
	memLimit  atomic.Int64
	gate      chan struct{}
	seen      sync.Map // id -> *vSeen
	plans     sync.Map // id -> *vCallPlan
	hangers   chan struct{}
	entered   atomic.Int64
	// the harness's own account of request memory: bytes of the request bodies currently inside handlers (a lower bound of what the server accounts)
	held, heldHigh atomic.Int64
	reqBuf         atomic.Int64 // RequestBufSize the server was started with (0: count body bytes only)
	idGates        sync.Map // id -> chan struct{}: kind 6 requests wait for their own gate (and ignore the context)
}

func (s *vServer) handler(ctx context.Context, hctx *rpc.HandlerContext) error {
	c := s.cur.Add(1)
	defer s.cur.Add(-1)
	s.entered.Add(1)
	for {
		h := s.high.Load()
		if c <= h || s.high.CompareAndSwap(h, c) {
			break
		}
	}
	if s.srv != nil {
		m, lim := s.srv.RequestsMemory()
		s.memLimit.Store(lim)
		for {
			h := s.memHigh.Load()
			if m <= h || s.memHigh.CompareAndSwap(h, m) {
				break
			}
		}
	}
	hsz := int64(len(hctx.Request))
	if rb := s.reqBuf.Load(); hsz < rb {
		hsz = rb // the server accounts max(packet length, RequestBufSize) per request: that buffer is what the request occupies
	}
	hb := s.held.Add(hsz)
	defer s.held.Add(-hsz)
	for {
		h := s.heldHigh.Load()
		if hb <= h || s.heldHigh.CompareAndSwap(h, hb) {
			break
		}
	}
	if s.gate != nil {
		select {
		case <-s.gate:
		case <-ctx.Done():
			return ctx.Err()
		}
	}
	req := hctx.Request
	if len(req) < 16 || binary.LittleEndian.Uint32(req) != vMagic {
		return &rpc.Error{Code: -1, Description: "bad request body"}
	}
	id := binary.LittleEndian.Uint64(req[4:])
	kind := int(binary.LittleEndian.Uint32(req[12:]))
	if kind == 6 {
		if g, ok := s.idGates.Load(id); ok {
			select {
			case <-g.(chan struct{}):
			case <-time.After(90 * time.Second):
			}
		}
	}
	var plan *vCallPlan
	if p, ok := s.plans.Load(id); ok {
		plan = p.(*vCallPlan)
	}
	seen := &vSeen{extra: hctx.RequestExtra, tl2: hctx.BodyFormatTL2(), actor: hctx.ActorID()}
	if plan != nil && plan.UseExtra {
		hctx.ResponseExtra = plan.RespExtra
		seen.resp = plan.RespExtra
	}
	s.seen.Store(id, seen)
	switch kind {
	case 1:
		code := int32(-1000 - int32(id%1000))
		if plan != nil {
			code = plan.ErrCode
		}
		return &rpc.Error{Code: code, Description: fmt.Sprintf("error for %d", id)}
	case 2:
		d := 200
		if plan != nil {
			d = plan.SleepUs
		}
		time.Sleep(time.Duration(d) * time.Microsecond)
	case 3:
		select {
		case <-ctx.Done():
			return ctx.Err()
		case <-s.hangers:
			return &rpc.Error{Code: -2, Description: "released"}
		}
	}
	hctx.Response = append(hctx.Response, req...)
	hctx.Response = binary.LittleEndian.AppendUint64(hctx.Response, id^0x5555555555555555)
	return nil
}

type vCanceller struct{}

func (vCanceller) CancelLongpoll(lh rpc.LongpollHandle) {}
func (vCanceller) WriteEmptyResponse(lh rpc.LongpollHandle, resp *rpc.HandlerContext) error {
	return rpc.ErrLongpollNoEmptyResponse
}

// kind 5 requests are answered through the longpoll path: StartLongpoll in the sync handler, then
// FinishLongpoll + SendLongpollResponse from another goroutine a little later
func (s *vServer) syncHandler(ctx context.Context, hctx *rpc.HandlerContext) error {
	req := hctx.Request
	if len(req) < 16 || binary.LittleEndian.Uint32(req) != vMagic || binary.LittleEndian.Uint32(req[12:]) != 5 {
		return rpc.ErrNoHandler
	}
	id := binary.LittleEndian.Uint64(req[4:])
	body := append([]byte{}, req...)
	var plan *vCallPlan
	if p, ok := s.plans.Load(id); ok {
		plan = p.(*vCallPlan)
	}
	s.seen.Store(id, &vSeen{extra: hctx.RequestExtra, tl2: hctx.BodyFormatTL2(), actor: hctx.ActorID()})
	lh, err := hctx.StartLongpoll(vCanceller{})
	if err != nil {
		return err
	}
	go func() {
		time.Sleep(time.Duration(200+id%1500) * time.Microsecond)
		h, ok := lh.FinishLongpoll()
		if !ok {
			return
		}
		if plan != nil && plan.UseExtra {
			h.ResponseExtra = plan.RespExtra
		}
		h.Response = append(h.Response, body...)
		h.Response = binary.LittleEndian.AppendUint64(h.Response, id^0x5555555555555555)
		h.SendLongpollResponse(nil)
	}()
	return nil
}

func vStartServer(t *testing.T, network string, key string, opts ...rpc.ServerOptionsFunc) *vServer {
	s := &vServer{hangers: make(chan struct{})}
	addr := "127.0.0.1:0"
	if network == "unix" {
		addr = fmt.Sprintf("%s/s%d.sock", t.TempDir(), rand.Int())
	}
	ln, err := net.Listen(network, addr)
	if err != nil {
		t.Fatal(err)
	}
	s.ln = ln
	all := []rpc.ServerOptionsFunc{rpc.ServerWithHandler(s.handler), rpc.ServerWithSyncHandler(s.syncHandler), rpc.ServerWithLogf(rpc.NoopLogf)}
	if key != "" {
		all = append(all, rpc.ServerWithCryptoKeys([]string{key}))
	}
	all = append(all, opts...)
	s.srv = rpc.NewServer(all...)
	go func() { _ = s.srv.Serve(ln) }()
	return s
}

// byte-stream proxy that delays and re-segments (unencrypted runs only)
type vProxy struct {
	ln     net.Listener
	target string
	net    string
	conns  sync.Map
	cut    atomic.Bool
}

func vStartProxy(t *testing.T, network, target string, seed int64) *vProxy {
	ln, err := net.Listen("tcp4", "127.0.0.1:0")
	if err != nil {
		t.Fatal(err)
	}
	p := &vProxy{ln: ln, target: target, net: network}
	go func() {
		for i := int64(0); ; i++ {
			c, err := ln.Accept()
			if err != nil {
				return
			}
			u, err := net.Dial(network, target)
			if err != nil {
				c.Close()
				continue
			}
			p.conns.Store(c, u)
			pipe := func(dst, src net.Conn, sd int64) {
				r := rand.New(rand.NewSource(sd))
				buf := make([]byte, 8192)
				for {
					k := 1 + r.Intn(len(buf))
					if r.Intn(3) == 0 {
						k = 1 + r.Intn(24)
					}
					n, err := src.Read(buf[:k])
					if n > 0 {
						if r.Intn(20) == 0 {
							time.Sleep(time.Duration(r.Intn(300)) * time.Microsecond)
						}
						if _, werr := dst.Write(buf[:n]); werr != nil {
							break
						}
					}
					if err != nil {
						break
					}
				}
				dst.Close()
				src.Close()
			}
			go pipe(u, c, seed+i*2)
			go pipe(c, u, seed+i*2+1)
		}
	}()
	return p
}

func (p *vProxy) cutAll() {
	p.conns.Range(func(k, v any) bool {
		k.(net.Conn).Close()
		v.(net.Conn).Close()
		return true
	})
}

type vCallEvent struct {
	ID       uint64 `json:"id"`
	Kind     int    `json:"kind"`
	Call     int64  `json:"call"`
	Return   int64  `json:"return"`
	Err      string `json:"err,omitempty"`
	BodyOK   bool   `json:"body_ok"`
	Callback bool   `json:"callback,omitempty"`
}

type vConfig struct {
	Network    string `json:"network"`
	Key        bool   `json:"key"`
	Proxy      bool   `json:"proxy"`
	Workers    int    `json:"workers"`
	Calls      int    `json:"calls"`
	Gomaxprocs int    `json:"gomaxprocs"`
	CloseMode  int    `json:"close_mode"` // 0 none, 1 client.Close with pending, 2 server.Close with pending, 3 proxy cut
	Seed       int64  `json:"seed"`
}

var vClock atomic.Int64

// checks one completed call against its plan; returns "" or a violation description
func vJudge(plan *vCallPlan, body []byte, err error, closing bool) string {
	sentKind := plan.Kind
	if sentKind == 4 {
		sentKind = 2
	}
	wantBody := append(vBody(plan.ID, sentKind, plan.Pad), 0, 0, 0, 0, 0, 0, 0, 0)
	binary.LittleEndian.PutUint64(wantBody[len(wantBody)-8:], plan.ID^0x5555555555555555)
	if err == nil {
		if plan.Kind == 1 {
			return fmt.Sprintf("call %d: handler returned an rpc error but the call succeeded with %d bytes", plan.ID, len(body))
		}
		if plan.Kind == 3 {
			return fmt.Sprintf("call %d: handler never answers but the call succeeded with %d bytes", plan.ID, len(body))
		}
		if !bytes.Equal(body, wantBody) {
			other := uint64(0)
			if len(body) >= 12 {
				other = binary.LittleEndian.Uint64(body[4:])
			}
			return fmt.Sprintf("call %d received a response that is not its own (%d bytes, carries id %d)", plan.ID, len(body), other)
		}
		return ""
	}
	var re *rpc.Error
	if errors.As(err, &re) {
		// the handlers of this workload only produce codes in [-5999,-5000]; every other code is produced by the library
		// for this very call (timeout, cancellation, shutdown, connection loss) and is the call's own
		if re.Code > -5000 || re.Code < -5999 {
			return ""
		}
		if plan.Kind != 1 {
			return fmt.Sprintf("call %d (kind %d) received rpc error (%d,%q) that its handler did not produce", plan.ID, plan.Kind, re.Code, re.Description)
		}
		if re.Code != plan.ErrCode || re.Description != fmt.Sprintf("error for %d", plan.ID) {
			return fmt.Sprintf("call %d received rpc error (%d,%q), its handler produced (%d,%q)", plan.ID, re.Code, re.Description, plan.ErrCode, fmt.Sprintf("error for %d", plan.ID))
		}
		return ""
	}
	// context / network errors are the call's own
	return ""
}

func vRunCalls(t *testing.T, st *vStats, cfg vConfig) {
	key := ""
	if cfg.Key {
		key = "0123456789abcdef0123456789abcdef"
	}
	maxWorkers := 4
	if cfg.CloseMode != 0 {
		maxWorkers = 64 // every slow call must be inside its handler (= sent and accepted) before a side is closed
	}
	srv := vStartServer(t, cfg.Network, key, rpc.ServerWithMaxWorkers(maxWorkers))
	target := srv.ln.Addr().String()
	network := cfg.Network
	var proxy *vProxy
	if cfg.Proxy {
		proxy = vStartProxy(t, cfg.Network, target, cfg.Seed)
		target = proxy.ln.Addr().String()
		network = "tcp4"
	}
	copts := []rpc.ClientOptionsFunc{rpc.ClientWithLogf(rpc.NoopLogf)}
	if key != "" {
		copts = append(copts, rpc.ClientWithCryptoKey(key), rpc.ClientWithForceEncryption(true))
	}
	clients := []rpc.Client{rpc.NewClient(copts...), rpc.NewClient(copts...)}
	var wg sync.WaitGroup
	var pendingAtClose atomic.Int64
	closing := atomic.Bool{}
	var idBase = uint64(cfg.Seed)<<20 + 1
	var evMu sync.Mutex
	var events []vCallEvent
	for w := 0; w < cfg.Workers; w++ {
		wg.Add(1)
		go func(w int) {
			defer wg.Done()
			r := rand.New(rand.NewSource(cfg.Seed*1000 + int64(w)))
			cl := clients[w%len(clients)]
			for i := 0; i < cfg.Calls; i++ {
				plan := &vCallPlan{ID: idBase + uint64(w*cfg.Calls+i), Pad: r.Intn(40), TimeoutMs: 20000}
				switch x := r.Intn(100); {
				case x < 60:
					plan.Kind = 0
				case x < 75:
					plan.Kind = 1
					plan.ErrCode = int32(-5000 - r.Intn(900))
				case x < 88:
					plan.Kind = 2
					plan.SleepUs = r.Intn(2000)
				case x < 94:
					plan.Kind = 3
					plan.TimeoutMs = 5 + r.Intn(40)
				default:
					plan.Kind = 4
					plan.SleepUs = 500 + r.Intn(3000)
				}
				if r.Intn(10) == 0 {
					plan.Pad = 2000 + r.Intn(30000)
				}
				if closing.Load() {
					return // calls issued after the close are not "pending at close"
				}
				lastOfCloseScenario := cfg.CloseMode != 0 && i == cfg.Calls-1
				if lastOfCloseScenario {
					// the last call of every worker is a slow one that is pending when the side is closed
					plan.Kind = 3
					plan.TimeoutMs = 45000
				}
				srv.plans.Store(plan.ID, plan)
				req := cl.GetRequest()
				kind := plan.Kind
				if kind == 4 {
					kind = 2
				}
				req.Body = append(req.Body, vBody(plan.ID, kind, plan.Pad)...)
				ctx, cancel := context.WithTimeout(context.Background(), time.Duration(plan.TimeoutMs)*time.Millisecond)
				if plan.Kind == 4 {
					go func(d int) { time.Sleep(time.Duration(d) * time.Microsecond); cancel() }(r.Intn(plan.SleepUs + 1))
				}
				ev := vCallEvent{ID: plan.ID, Kind: plan.Kind, Call: vClock.Add(1)}
				useCb := r.Intn(6) == 0 && plan.Kind != 4 && cfg.CloseMode == 0
				var body []byte
				var err error
				if lastOfCloseScenario {
					pendingAtClose.Add(1)
				}
				if useCb {
					ev.Callback = true
					done := make(chan struct{})
					var cbErr error
					var cbBody []byte
					_, err = cl.DoCallback(ctx, network, target, req, func(c rpc.Client, resp *rpc.Response, e error) {
						cbErr = e
						if resp != nil {
							cbBody = append([]byte{}, resp.Body...)
							c.PutResponse(resp)
						}
						close(done)
					}, nil)
					if err == nil {
						select {
						case <-done:
							err, body = cbErr, cbBody
						case <-time.After(90 * time.Second):
							err = errors.New("verif: callback never called (watchdog)")
							st.violation("rpc-calls", "pending-call-never-returned", fmt.Sprintf("callback of call %d was not called within 90s (close mode %d)", plan.ID, cfg.CloseMode), cfg)
						}
					}
				} else {
					var resp *rpc.Response
					resp, err = cl.Do(ctx, network, target, req)
					if resp != nil {
						body = append([]byte{}, resp.Body...)
						cl.PutResponse(resp)
					}
				}
				cancel()
				ev.Return = vClock.Add(1)
				if err != nil {
					ev.Err = err.Error()
					if len(ev.Err) > 80 {
						ev.Err = ev.Err[:80]
					}
				}
				v := vJudge(plan, body, err, closing.Load() || cfg.CloseMode != 0)
				ev.BodyOK = v == ""
				evMu.Lock()
				events = append(events, ev)
				evMu.Unlock()
				st.add("calls_completed", 1)
				if err == nil {
					st.add("calls_ok", 1)
				} else if _, ok := err.(*rpc.Error); ok {
					st.add("calls_rpc_error", 1)
				} else {
					st.add("calls_ctx_or_net_error", 1)
				}
				if v != "" {
					st.violation("rpc-calls", "foreign-response", v, map[string]any{"config": cfg, "event": ev})
				}
			}
		}(w)
	}
	allDone := make(chan struct{})
	go func() { wg.Wait(); close(allDone) }()
	if cfg.CloseMode != 0 {
		// wait until the slow calls are pending, then close one side: every pending call must return
		deadline := time.Now().Add(40 * time.Second)
		for (pendingAtClose.Load() < int64(cfg.Workers) || srv.cur.Load() < int64(cfg.Workers)) && time.Now().Before(deadline) {
			time.Sleep(time.Millisecond)
		}
		if srv.cur.Load() < int64(cfg.Workers) {
			vEmit(map[string]any{"t": "inconclusive", "msg": fmt.Sprintf("C38 close scenario: only %d of %d slow calls reached their handlers", srv.cur.Load(), cfg.Workers)})
		}
		closing.Store(true)
		switch cfg.CloseMode {
		case 1:
			for _, c := range clients {
				_ = c.Close()
			}
		case 2:
			_ = srv.srv.Close()
		case 3:
			if proxy != nil {
				proxy.ln.Close()
				proxy.cutAll()
			} else {
				_ = srv.srv.Close()
			}
		}
		st.add("close_scenarios", 1)
	}
	select {
	case <-allDone:
	case <-time.After(30 * time.Second):
		// the slow calls' own context deadline is 45 s: returning only then is not "returning because the side was closed"
		if cfg.CloseMode != 0 {
			st.violation("rpc-calls", "pending-call-never-returned", fmt.Sprintf("calls still pending 30s after close mode %d (slow calls pending in handlers at close: %d, their own deadline is 45s)", cfg.CloseMode, pendingAtClose.Load()), cfg)
		} else {
			vEmit(map[string]any{"t": "inconclusive", "msg": "C38: workload did not finish within 30s after the last call was issued (watchdog)"})
		}
		<-allDone
	}
	close(srv.hangers)
	for _, c := range clients {
		_ = c.Close()
	}
	_ = srv.srv.Close()
	if proxy != nil {
		proxy.ln.Close()
	}
	st.dist(fmt.Sprintf("%s key=%v proxy=%v close=%d w=%d", cfg.Network, cfg.Key, cfg.Proxy, cfg.CloseMode, cfg.Workers))
	evMu.Lock()
	if len(st.samples) < 2 && len(events) > 3 {
		st.samples = append(st.samples, map[string]any{"config": cfg, "first_events": events[:3]})
	}
	evMu.Unlock()
}

// client.Close() while calls are queued but cannot be sent (nobody listens): every call must return
func vRunCloseUnsent(t *testing.T, st *vStats, seed int64) {
	ln, err := net.Listen("tcp4", "127.0.0.1:0")
	if err != nil {
		t.Fatal(err)
	}
	addr := ln.Addr().String()
	ln.Close() // nobody listens here any more
	cl := rpc.NewClient(rpc.ClientWithLogf(rpc.NoopLogf))
	n := 3 + int(seed%5)
	var wg sync.WaitGroup
	var returned atomic.Int64
	for i := 0; i < n; i++ {
		wg.Add(1)
		go func(i int) {
			defer wg.Done()
			req := cl.GetRequest()
			req.Body = append(req.Body, vBody(uint64(seed)<<8+uint64(i)+1, 0, 1)...)
			ctx := context.Background() // no deadline: only Close can make it return
			if i%2 == 1 {
				var cancel context.CancelFunc
				ctx, cancel = context.WithTimeout(ctx, 50*time.Second)
				defer cancel()
			}
			resp, _ := cl.Do(ctx, "tcp4", addr, req)
			returned.Add(1)
			if resp != nil {
				cl.PutResponse(resp)
			}
		}(i)
	}
	time.Sleep(time.Duration(20+seed%60) * time.Millisecond)
	_ = cl.Close()
	done := make(chan struct{})
	go func() { wg.Wait(); close(done) }()
	select {
	case <-done:
	case <-time.After(30 * time.Second):
		st.violation("rpc-calls", "pending-call-never-returned", fmt.Sprintf("client.Close() with %d queued (unsent) calls to an unreachable server: only %d returned within 30s", n, returned.Load()), map[string]any{"calls": n, "seed": seed})
	}
	st.add("close_unsent_scenarios", 1)
}

func TestVerifC38(t *testing.T) {
	seed := int64(vEnvInt("VERIF_SEED", 1))
	rounds := vEnvInt("VERIF_N", 3)
	calls := vEnvInt("VERIF_CALLS", 60)
	st := newStats()
	n := 0
	for round := 0; round < rounds; round++ {
		for _, network := range []string{"tcp4", "unix"} {
			for _, key := range []bool{false, true} {
				for _, closeMode := range []int{0, 0, 1, 2, 3} {
					n++
					cfg := vConfig{Network: network, Key: key, Proxy: !key && n%2 == 0, Workers: 6 + n%7, Calls: calls, CloseMode: closeMode, Seed: seed*100 + int64(n)}
					if closeMode != 0 {
						cfg.Calls = 8
					}
					vRunCalls(t, st, cfg)
					st.add("configurations", 1)
				}
			}
		}
	}
	for i := 0; i < 6; i++ {
		vRunCloseUnsent(t, st, seed*10+int64(i))
	}
	st.done("rpc-calls")
}

// ---------------------------------------------------------------- C39

// vSaturate sends n gated calls from n clients to a server whose handlers block on srv.gate, waits until the number of
// running handlers is stable, and returns the clients and a wait function (call after closing the gate)
func vSaturate(srv *vServer, n int, idBase uint64) (clients []rpc.Client, wait func()) {
	var wg sync.WaitGroup
	clients = make([]rpc.Client, n)
	for i := range clients {
		clients[i] = rpc.NewClient(rpc.ClientWithLogf(rpc.NoopLogf))
		wg.Add(1)
		go func(i int) {
			defer wg.Done()
			req := clients[i].GetRequest()
			req.Body = append(req.Body, vBody(idBase+uint64(i), 0, 2)...)
			ctx, cancel := context.WithTimeout(context.Background(), 60*time.Second)
			defer cancel()
			resp, _ := clients[i].Do(ctx, "tcp4", srv.ln.Addr().String(), req)
			if resp != nil {
				clients[i].PutResponse(resp)
			}
		}(i)
	}
	last, stable := int64(-1), 0
	for i := 0; i < 400 && stable < 30; i++ {
		c := srv.cur.Load()
		if c == last && c > 0 {
			stable++
		} else {
			stable = 0
		}
		last = c
		time.Sleep(5 * time.Millisecond)
	}
	return clients, wg.Wait
}

// vDisconnectWhileWaiting: request memory is exhausted by handlers that hold their requests; one connection has two requests inside handlers and a
// third one waiting for memory when its client goes away; its two handlers then finish one after the other; new load arrives. The bytes of
// request bodies inside handlers (the harness's own account, a lower bound of the server's) must stay within the limit throughout.
func vDisconnectWhileWaiting(t *testing.T, st *vStats, seed int64, round int) {
	srv := vStartServer(t, "tcp4", "", rpc.ServerWithMaxWorkers(64), rpc.ServerWithRequestMemoryLimit(1), rpc.ServerWithRequestBufSize(5<<19))
	srv.reqBuf.Store(5 << 19) // 2.5 MiB per request: six fit into the 16 MiB floor
	defer func() { _ = srv.srv.Close() }()
	_, limit := srv.srv.RequestsMemory()
	pad := 3 + round
	base := uint64(seed)<<28 + uint64(round)<<20 + 0x60000
	var next atomic.Uint64
	var all []chan struct{}
	var allMu sync.Mutex
	var wg sync.WaitGroup
	send := func(cl rpc.Client) (id uint64, gate chan struct{}) {
		id = base + next.Add(1)
		gate = make(chan struct{})
		srv.idGates.Store(id, gate)
		allMu.Lock()
		all = append(all, gate)
		allMu.Unlock()
		wg.Add(1)
		go func() {
			defer wg.Done()
			req := cl.GetRequest()
			req.Body = append(req.Body, vBody(id, 6, pad)...)
			ctx, cancel := context.WithTimeout(context.Background(), 100*time.Second)
			defer cancel()
			resp, _ := cl.Do(ctx, "tcp4", srv.ln.Addr().String(), req)
			if resp != nil {
				cl.PutResponse(resp)
			}
		}()
		return id, gate
	}
	waitEntered := func(want int64, ms int) bool {
		for i := 0; i < ms; i++ {
			if srv.entered.Load() >= want {
				return true
			}
			time.Sleep(time.Millisecond)
		}
		return srv.entered.Load() >= want
	}
	// connection x is a bare packet connection: its owner can announce a request (header only) and go away without any library help
	rawx, err := net.Dial("tcp4", srv.ln.Addr().String())
	if err != nil {
		vEmit(map[string]any{"t": "inconclusive", "msg": "C39 disconnect scenario: dial failed: " + err.Error()})
		return
	}
	x := rpc.NewPacketConn(rawx, 4096, 4096)
	if err := x.HandshakeClient("", nil, false, 1, 0, 5*time.Second, rpc.LatestProtocolVersion); err != nil {
		vEmit(map[string]any{"t": "inconclusive", "msg": "C39 disconnect scenario: handshake failed: " + err.Error()})
		return
	}
	sendRaw := func() chan struct{} {
		id := base + next.Add(1)
		gate := make(chan struct{})
		srv.idGates.Store(id, gate)
		allMu.Lock()
		all = append(all, gate)
		allMu.Unlock()
		body := binary.LittleEndian.AppendUint64(nil, id) // query id
		body = append(body, vBody(id, 6, pad)...)
		if err := x.WritePacket(rpctl.RpcInvokeReqHeader{}.TLTag(), body, 5*time.Second); err != nil {
			vEmit(map[string]any{"t": "note", "msg": "C39 disconnect scenario: raw request not written: " + err.Error()})
		}
		return gate
	}
	y := rpc.NewClient(rpc.ClientWithLogf(rpc.NoopLogf))
	z := rpc.NewClient(rpc.ClientWithLogf(rpc.NoopLogf))
	defer func() { _ = y.Close(); _ = z.Close() }()
	gx1 := sendRaw()
	gx2 := sendRaw()
	if !waitEntered(2, 5000) {
		vEmit(map[string]any{"t": "inconclusive", "msg": "C39 disconnect scenario: the first two requests did not reach their handlers"})
		return
	}
	// fill the rest of the memory from another connection until a request has to wait
	for i := 0; i < 12; i++ {
		before := srv.entered.Load()
		send(y)
		if !waitEntered(before+1, 500) {
			break
		}
	}
	enteredFull := srv.entered.Load()
	if m, _ := srv.srv.RequestsMemory(); true {
		vEmit(map[string]any{"t": "note", "msg": fmt.Sprintf("C39 disconnect scenario: %d handlers entered, server accounts %d of %d, own account %d", enteredFull, m, limit, srv.held.Load())})
	}
	// x announces one more request that needs more memory than its two earlier requests will free (header only): it waits in x's receive loop
	if err := x.WritePacketHeaderUnlocked(rpctl.RpcInvokeReqHeader{}.TLTag(), 6<<20, 5*time.Second); err == nil {
		_ = x.FlushUnlocked()
	}
	time.Sleep(200 * time.Millisecond)
	trace := []string{}
	mark := func(what string) {
		m, _ := srv.srv.RequestsMemory()
		trace = append(trace, fmt.Sprintf("%s: entered=%d running=%d accounted=%d own=%d", what, srv.entered.Load(), srv.cur.Load(), m, srv.held.Load()))
	}
	mark("memory full, big request waiting")
	_ = x.Close() // the client goes away
	time.Sleep(100 * time.Millisecond)
	close(gx1)
	time.Sleep(150 * time.Millisecond)
	mark("first handler of the closed connection finished")
	close(gx2)
	time.Sleep(300 * time.Millisecond)
	mark("second handler finished")
	for i := 0; i < 8; i++ { // new load
		send(z)
	}
	time.Sleep(700 * time.Millisecond)
	mark("new load")
	vEmit(map[string]any{"t": "note", "msg": "C39 disconnect scenario: " + strings.Join(trace, " | ")})
	st.add("disconnect_scenarios", 1)
	st.add("disconnect_scenario_handlers_entered", int(srv.entered.Load()))
	st.dist(fmt.Sprintf("disconnect-while-waiting entered=%d", srv.entered.Load()))
	if h := srv.heldHigh.Load(); h > limit {
		st.violation("rpc-limits", "memory-own-account", fmt.Sprintf("client disconnect while a request waited for memory: request bodies inside handlers add up to %d bytes, the request memory limit is %d (the server reports %d)", h, limit, func() int64 { m, _ := srv.srv.RequestsMemory(); return m }()), map[string]any{"scenario": "disconnect-while-waiting", "round": round})
	}
	allMu.Lock()
	for _, g := range all {
		select {
		case <-g:
		default:
			close(g)
		}
	}
	allMu.Unlock()
	wg.Wait()
}

func TestVerifC39(t *testing.T) {
	seed := int64(vEnvInt("VERIF_SEED", 1))
	rounds := vEnvInt("VERIF_N", 4)
	st := newStats()
	// a server whose workers are created now and then left idle beyond the pool's collection time (60 s) while the other rounds run;
	// it is saturated again at the end of the test
	idleW := 3
	idle := vStartServer(t, "tcp4", "", rpc.ServerWithMaxWorkers(idleW))
	idle.gate = make(chan struct{})
	{
		cls, wait := vSaturate(idle, idleW+4, uint64(seed)<<26+0x7000)
		close(idle.gate)
		wait()
		for _, c := range cls {
			_ = c.Close()
		}
	}
	idleStart := time.Now()
	idleHighBefore := idle.high.Load()
	for round := 0; round < vEnvInt("VERIF_DISCONNECT", 2); round++ {
		vDisconnectWhileWaiting(t, st, seed, round)
	}
	for round := 0; round < rounds; round++ {
		r := rand.New(rand.NewSource(seed*77 + int64(round)))
		W := 1 + r.Intn(5)
		reqBuf := 4 << 20 // memory-bound rounds: at most 3 requests fit into the 16 MiB floor
		if round%2 == 0 {
			reqBuf = 64 << 10 // worker-bound rounds
		}
		srv := vStartServer(t, "tcp4", "", rpc.ServerWithMaxWorkers(W), rpc.ServerWithRequestMemoryLimit(1), rpc.ServerWithRequestBufSize(reqBuf))
		srv.reqBuf.Store(int64(reqBuf))
		srv.gate = make(chan struct{})
		nClients := 2 + r.Intn(5)
		nCalls := 8 + r.Intn(20)
		clients := make([]rpc.Client, nClients)
		for i := range clients {
			clients[i] = rpc.NewClient(rpc.ClientWithLogf(rpc.NoopLogf))
		}
		// sampler: server-accounted request memory must never exceed the limit
		stop := make(chan struct{})
		var maxMem, limit atomic.Int64
		var samples atomic.Int64
		go func() {
			for {
				select {
				case <-stop:
					return
				default:
				}
				m, lim := srv.srv.RequestsMemory()
				limit.Store(lim)
				for {
					h := maxMem.Load()
					if m <= h || maxMem.CompareAndSwap(h, m) {
						break
					}
				}
				samples.Add(1)
				time.Sleep(50 * time.Microsecond)
			}
		}()
		var wg sync.WaitGroup
		var completed, failed atomic.Int64
		var completedBeforeGate atomic.Int64
		gateOpen := atomic.Bool{}
		for g := 0; g < nCalls; g++ {
			wg.Add(1)
			go func(g int) {
				defer wg.Done()
				cl := clients[g%nClients]
				id := uint64(seed)<<24 + uint64(round)<<12 + uint64(g) + 1
				req := cl.GetRequest()
				req.Body = append(req.Body, vBody(id, 0, 1+g%50)...)
				ctx, cancel := context.WithTimeout(context.Background(), 60*time.Second)
				defer cancel()
				resp, err := cl.Do(ctx, "tcp4", srv.ln.Addr().String(), req)
				if err != nil {
					failed.Add(1)
					st.violation("rpc-limits", "rejected", fmt.Sprintf("call %d under load failed instead of waiting: %v", g, err), map[string]any{"W": W, "calls": nCalls})
					return
				}
				if !gateOpen.Load() {
					completedBeforeGate.Add(1)
				}
				completed.Add(1)
				cl.PutResponse(resp)
			}(g)
		}
		// let the load build up while handlers block on the gate
		deadline := time.Now().Add(10 * time.Second)
		want := int64(W)
		if int64(nCalls) < want {
			want = int64(nCalls)
		}
		if fit := int64((16<<20 - 1) / reqBuf); fit < want {
			want = fit
		}
		for srv.cur.Load() < want && time.Now().Before(deadline) {
			time.Sleep(time.Millisecond)
		}
		time.Sleep(150 * time.Millisecond)
		curBlocked := srv.cur.Load()
		m, lim := srv.srv.RequestsMemory()
		st.add("rounds", 1)
		st.add("calls", nCalls)
		st.dist(fmt.Sprintf("W=%d clients=%d calls=%d buf=%d", W, nClients, nCalls, reqBuf))
		if h := srv.high.Load(); h > int64(W) {
			st.violation("rpc-limits", "workers", fmt.Sprintf("%d handlers ran concurrently with a worker limit of %d", h, W), map[string]any{"W": W, "calls": nCalls})
		}
		if curBlocked < want {
			vEmit(map[string]any{"t": "inconclusive", "msg": fmt.Sprintf("C39: only %d of %d workers were busy when sampled", curBlocked, want)})
		}
		if completedBeforeGate.Load() != 0 {
			st.violation("rpc-limits", "gate", fmt.Sprintf("%d calls completed while every handler was blocked", completedBeforeGate.Load()), nil)
		}
		if m > lim {
			st.violation("rpc-limits", "memory", fmt.Sprintf("request memory %d exceeds the limit %d while blocked", m, lim), nil)
		}
		st.add("blocked_samples", 1)
		gateOpen.Store(true)
		close(srv.gate)
		done := make(chan struct{})
		go func() { wg.Wait(); close(done) }()
		select {
		case <-done:
		case <-time.After(90 * time.Second):
			st.violation("rpc-limits", "excess-load-lost", fmt.Sprintf("after the gate opened only %d of %d calls completed within 90s", completed.Load(), nCalls), nil)
		}
		close(stop)
		if completed.Load()+failed.Load() == int64(nCalls) && completed.Load() != int64(nCalls) {
			// already reported as "rejected"
		}
		if h := srv.high.Load(); h > int64(W) {
			st.violation("rpc-limits", "workers", fmt.Sprintf("%d handlers ran concurrently with a worker limit of %d", h, W), nil)
		}
		if mm, l := maxMem.Load(), limit.Load(); l > 0 && mm > l {
			st.violation("rpc-limits", "memory", fmt.Sprintf("sampled request memory %d exceeded the limit %d", mm, l), nil)
		}
		if hh, l := srv.heldHigh.Load(), limit.Load(); l > 0 && hh > l {
			st.violation("rpc-limits", "memory-own-account", fmt.Sprintf("requests inside handlers occupied %d bytes (max(body, RequestBufSize) each), the request memory limit is %d", hh, l), nil)
		}
		if mm, l := srv.memHigh.Load(), srv.memLimit.Load(); l > 0 && mm > l {
			st.violation("rpc-limits", "memory", fmt.Sprintf("request memory seen by a handler %d exceeded the limit %d", mm, l), nil)
		}
		// after drain the accounted memory returns to 0
		var after int64
		for i := 0; i < 2000; i++ {
			after, _ = srv.srv.RequestsMemory()
			if after == 0 {
				break
			}
			time.Sleep(time.Millisecond)
		}
		if after != 0 {
			st.violation("rpc-limits", "memory-leak", fmt.Sprintf("request memory is %d after all calls completed", after), nil)
		}
		st.add("memory_samples", int(samples.Load()))
		st.add("max_concurrent_handlers_seen", int(srv.high.Load()))
		if len(st.samples) < 2 {
			st.samples = append(st.samples, map[string]any{"W": W, "clients": nClients, "calls": nCalls, "high_water": srv.high.Load(), "mem_while_blocked": m, "mem_limit": lim, "max_mem_sampled": maxMem.Load()})
		}
		for _, c := range clients {
			_ = c.Close()
		}
		_ = srv.srv.Close()
	}
	// graceful shutdown while more connections than workers have pending requests: the drain must respect the limit
	for round := 0; round < vEnvInt("VERIF_SHUTDOWN", 2); round++ {
		W := 1 + round%3
		srv := vStartServer(t, "tcp4", "", rpc.ServerWithMaxWorkers(W))
		srv.gate = make(chan struct{})
		nClients := W + 3 + round
		var wg sync.WaitGroup
		var okCalls atomic.Int64
		clients := make([]rpc.Client, nClients)
		for i := range clients {
			clients[i] = rpc.NewClient(rpc.ClientWithLogf(rpc.NoopLogf))
			wg.Add(1)
			go func(i int) {
				defer wg.Done()
				id := uint64(seed)<<30 + uint64(round)<<16 + uint64(i) + 7
				req := clients[i].GetRequest()
				req.Body = append(req.Body, vBody(id, 0, 2)...)
				ctx, cancel := context.WithTimeout(context.Background(), 60*time.Second)
				defer cancel()
				resp, err := clients[i].Do(ctx, "tcp4", srv.ln.Addr().String(), req)
				if err == nil {
					okCalls.Add(1)
				}
				if resp != nil {
					clients[i].PutResponse(resp)
				}
			}(i)
		}
		deadline := time.Now().Add(10 * time.Second)
		for srv.cur.Load() < int64(W) && time.Now().Before(deadline) {
			time.Sleep(time.Millisecond)
		}
		time.Sleep(100 * time.Millisecond) // the other requests are read and queued for a worker
		srv.srv.Shutdown()
		time.Sleep(50 * time.Millisecond)
		if h := srv.high.Load(); h > int64(W) {
			st.violation("rpc-limits", "workers", fmt.Sprintf("graceful shutdown: %d handlers ran concurrently with a worker limit of %d (%d connections with pending requests)", h, W, nClients), map[string]any{"W": W, "connections": nClients})
		}
		close(srv.gate)
		wg.Wait()
		if h := srv.high.Load(); h > int64(W) {
			st.violation("rpc-limits", "workers", fmt.Sprintf("graceful shutdown drain: %d handlers ran concurrently with a worker limit of %d (%d connections with pending requests)", h, W, nClients), map[string]any{"W": W, "connections": nClients})
		}
		st.add("shutdown_rounds", 1)
		st.add("shutdown_calls_served", int(okCalls.Load()))
		st.dist(fmt.Sprintf("shutdown W=%d conns=%d", W, nClients))
		for _, c := range clients {
			_ = c.Close()
		}
		_ = srv.srv.Close()
	}
	// hostile peer: while request memory is exhausted by blocked handlers, a raw connection sends packet headers of
	// every client-to-server packet type declaring a large body and then stalls; accounted memory must stay within the limit
	for hi, tip := range []uint32{rpctl.RpcCancelReq{}.TLTag(), rpctl.RpcClientWantsFin{}.TLTag(), rpctl.RpcInvokeReqHeader{}.TLTag(), 0x12345678} {
		if hi >= vEnvInt("VERIF_HOSTILE", 4) {
			break
		}
		srv := vStartServer(t, "tcp4", "", rpc.ServerWithMaxWorkers(8), rpc.ServerWithRequestMemoryLimit(1), rpc.ServerWithRequestBufSize(3<<20))
		srv.gate = make(chan struct{})
		var wg sync.WaitGroup
		clients := make([]rpc.Client, 7)
		for i := range clients {
			clients[i] = rpc.NewClient(rpc.ClientWithLogf(rpc.NoopLogf))
			wg.Add(1)
			go func(i int) {
				defer wg.Done()
				req := clients[i].GetRequest()
				req.Body = append(req.Body, vBody(uint64(seed)<<20+uint64(hi)<<8+uint64(i)+3, 0, 700000)...) // ~2.8 MB
				ctx, cancel := context.WithTimeout(context.Background(), 60*time.Second)
				defer cancel()
				resp, _ := clients[i].Do(ctx, "tcp4", srv.ln.Addr().String(), req)
				if resp != nil {
					clients[i].PutResponse(resp)
				}
			}(i)
		}
		deadline := time.Now().Add(10 * time.Second)
		for srv.cur.Load() < 5 && time.Now().Before(deadline) {
			time.Sleep(time.Millisecond)
		}
		time.Sleep(100 * time.Millisecond)
		before, lim := srv.srv.RequestsMemory()
		raw, err := net.Dial("tcp4", srv.ln.Addr().String())
		if err == nil {
			pc := rpc.NewPacketConn(raw, 4096, 4096)
			if err = pc.HandshakeClient("", nil, false, 1, 0, 5*time.Second, rpc.LatestProtocolVersion); err == nil {
				if err = pc.WritePacketHeaderUnlocked(tip, 4<<20, 0); err == nil {
					_ = pc.WritePacketBodyUnlocked(make([]byte, 8))
					_ = pc.FlushUnlocked()
				}
			}
			var maxSeen int64
			for i := 0; i < 300; i++ {
				m, _ := srv.srv.RequestsMemory()
				if m > maxSeen {
					maxSeen = m
				}
				time.Sleep(time.Millisecond)
			}
			if maxSeen > lim {
				st.violation("rpc-limits", "memory", fmt.Sprintf("hostile peer: a packet header of type %08x declaring a 4 MiB body pushed the accounted request memory to %d (limit %d, %d before)", tip, maxSeen, lim, before), map[string]any{"type": fmt.Sprintf("%08x", tip)})
			}
			st.add("hostile_headers_sent", 1)
			raw.Close()
		}
		if err != nil {
			vEmit(map[string]any{"t": "inconclusive", "msg": "C39 hostile peer could not connect/handshake: " + err.Error()})
		}
		close(srv.gate)
		wg.Wait()
		for _, c := range clients {
			_ = c.Close()
		}
		_ = srv.srv.Close()
	}
	// sustained overload without a gate: many connections, pipelined short calls, workers finishing while new
	// requests arrive (the wake-up path of the worker pool)
	sustained := vEnvInt("VERIF_SUSTAINED", 3)
	for round := 0; round < sustained; round++ {
		r := rand.New(rand.NewSource(seed*991 + int64(round)))
		W := 1 + r.Intn(3)
		srv := vStartServer(t, "tcp4", "", rpc.ServerWithMaxWorkers(W))
		nClients := 6 + r.Intn(8)
		per := 3 + r.Intn(3)
		calls := 150
		clients := make([]rpc.Client, nClients)
		for i := range clients {
			clients[i] = rpc.NewClient(rpc.ClientWithLogf(rpc.NoopLogf))
		}
		var wg sync.WaitGroup
		var fails atomic.Int64
		for c := 0; c < nClients; c++ {
			for g := 0; g < per; g++ {
				wg.Add(1)
				go func(c, g int) {
					defer wg.Done()
					cl := clients[c]
					for i := 0; i < calls; i++ {
						id := uint64(seed)<<32 + uint64(round)<<24 + uint64(c)<<16 + uint64(g)<<12 + uint64(i) + 1
						plan := &vCallPlan{ID: id, Kind: 2, SleepUs: 20 + (i*7+g)%200}
						srv.plans.Store(id, plan)
						req := cl.GetRequest()
						req.Body = append(req.Body, vBody(id, 2, i%5)...)
						ctx, cancel := context.WithTimeout(context.Background(), 60*time.Second)
						resp, err := cl.Do(ctx, "tcp4", srv.ln.Addr().String(), req)
						cancel()
						if err != nil {
							fails.Add(1)
						}
						if resp != nil {
							cl.PutResponse(resp)
						}
					}
				}(c, g)
			}
		}
		wg.Wait()
		st.add("sustained_rounds", 1)
		st.add("sustained_calls", nClients*per*calls)
		st.dist(fmt.Sprintf("sustained W=%d conns=%d per=%d", W, nClients, per))
		if h := srv.high.Load(); h > int64(W) {
			st.violation("rpc-limits", "workers", fmt.Sprintf("sustained overload: %d handlers ran concurrently with a worker limit of %d (%d connections x %d pipelined callers)", h, W, nClients, per), map[string]any{"W": W, "connections": nClients, "per": per})
		}
		if cur, total := srv.srv.WorkersPoolSize(); cur > total {
			st.violation("rpc-limits", "workers", fmt.Sprintf("sustained overload: worker pool reports %d workers created with a limit of %d", cur, total), nil)
		}
		if fails.Load() != 0 {
			st.violation("rpc-limits", "rejected", fmt.Sprintf("sustained overload: %d calls failed instead of waiting", fails.Load()), nil)
		}
		for _, c := range clients {
			_ = c.Close()
		}
		_ = srv.srv.Close()
	}
	// the idle server: after its workers have been collected, saturating load must still be limited to the configured number of workers
	if wait := 68*time.Second - time.Since(idleStart); wait > 0 && vEnvInt("VERIF_IDLE", 1) != 0 {
		time.Sleep(wait)
	}
	if vEnvInt("VERIF_IDLE", 1) != 0 {
		idle.gate = make(chan struct{})
		idle.high.Store(0)
		cls, wait := vSaturate(idle, 3*idleW+3, uint64(seed)<<26+0x7100)
		time.Sleep(300 * time.Millisecond)
		st.add("idle_rounds", 1)
		st.dist(fmt.Sprintf("idle %ds W=%d", int(time.Since(idleStart).Seconds()), idleW))
		if h := idle.high.Load(); h > int64(idleW) {
			st.violation("rpc-limits", "workers", fmt.Sprintf("after %d s without requests (idle workers collected) %d handlers ran concurrently with a worker limit of %d (%d before the idle period)", int(time.Since(idleStart).Seconds()), h, idleW, idleHighBefore), map[string]any{"scenario": "idle-collection", "W": idleW})
		}
		if cur, total := idle.srv.WorkersPoolSize(); cur > total {
			st.violation("rpc-limits", "workers", fmt.Sprintf("after the idle period the worker pool reports %d workers created with a limit of %d", cur, total), nil)
		}
		close(idle.gate)
		wait()
		for _, c := range cls {
			_ = c.Close()
		}
	}
	_ = idle.srv.Close()
	st.done("rpc-limits")
}

// ---------------------------------------------------------------- C40

func vRandReqExtra(r *rand.Rand) rpc.RequestExtra {
	var e rpc.RequestExtra
	rg := basictl.NewRandGenerator(r)
	e.FillRandom(rg)
	// fields the client library manages itself are exercised separately
	e.SetNoResult(false)
	e.ClearCustomTimeoutMs()
	e.ClearTraceContext()
	e.ClearExecutionContext()
	return e
}

func vRandRespExtra(r *rand.Rand) rpc.ResponseExtra {
	var e rpc.ResponseExtra
	rg := basictl.NewRandGenerator(r)
	e.FillRandom(rg)
	return e
}

func vExtraBytes(e *rpc.RequestExtra) string {
	b, err := e.WriteTL1General(nil)
	if err != nil {
		return "ERR " + err.Error()
	}
	return string(b)
}

func vRespExtraBytes(e *rpc.ResponseExtra) string {
	b, err := e.WriteTL1General(nil)
	if err != nil {
		return "ERR " + err.Error()
	}
	return string(b)
}

func TestVerifC40(t *testing.T) {
	seed := int64(vEnvInt("VERIF_SEED", 1))
	n := vEnvInt("VERIF_N", 600)
	st := newStats()
	for _, key := range []bool{false, true} {
		k := ""
		if key {
			k = "0123456789abcdef0123456789abcdef"
		}
		srv := vStartServer(t, "tcp4", k, rpc.ServerWithMaxWorkers(4))
		copts := []rpc.ClientOptionsFunc{rpc.ClientWithLogf(rpc.NoopLogf)}
		if key {
			copts = append(copts, rpc.ClientWithCryptoKey(k), rpc.ClientWithForceEncryption(true))
		}
		cl := rpc.NewClient(copts...)
		var wg sync.WaitGroup
		for w := 0; w < 4; w++ {
			wg.Add(1)
			go func(w int) {
				defer wg.Done()
				r := rand.New(rand.NewSource(seed*313 + int64(w) + 1000*int64(len(k))))
				for i := 0; i < n/8; i++ {
					id := uint64(seed)<<28 + uint64(len(k))<<20 + uint64(w)<<16 + uint64(i) + 1
					plan := &vCallPlan{ID: id, Pad: r.Intn(8), UseExtra: true, TL2: r.Intn(2) == 0}
					plan.Extra = vRandReqExtra(r)
					plan.RespExtra = vRandRespExtra(r)
					if r.Intn(5) == 0 {
						plan.Kind = 1
						plan.ErrCode = int32(-5000 - r.Intn(999))
						if r.Intn(4) == 0 {
							plan.ErrCode = 0 // documented to become "Unknown"
						}
					}
					if plan.Kind == 0 && r.Intn(4) == 0 {
						plan.Kind = 5 // answered through the longpoll path
					}
					withTimeout := r.Intn(4) == 0
					if withTimeout {
						plan.Extra.SetCustomTimeoutMs(int32(1000 + r.Intn(100000)))
					}
					srv.plans.Store(id, plan)
					req := cl.GetRequest()
					req.Body = append(req.Body, vBody(id, plan.Kind, plan.Pad)...)
					req.Extra = plan.Extra
					req.BodyFormatTL2 = plan.TL2
					if r.Intn(3) == 0 {
						req.ActorID = -int64(r.Intn(1000)) // <= 0: no execution/trace context injection
					}
					actor := req.ActorID
					wantExtra := vExtraBytes(&plan.Extra)
					resp, err := cl.Do(context.Background(), "tcp4", srv.ln.Addr().String(), req)
					st.add("calls", 1)
					sv, ok := srv.seen.Load(id)
					if !ok {
						st.violation("rpc-extras", "not-delivered", fmt.Sprintf("call %d never reached the handler (err=%v)", id, err), nil)
						continue
					}
					seen := sv.(*vSeen)
					if got := vExtraBytes(&seen.extra); got != wantExtra {
						st.violation("rpc-extras", "request-extra", fmt.Sprintf("call %d (tl2=%v actor=%d): handler saw request extra %s, client set %s", id, plan.TL2, actor, seen.extra.String(), plan.Extra.String()), nil)
					}
					if seen.tl2 != plan.TL2 {
						st.violation("rpc-extras", "body-format", fmt.Sprintf("call %d: handler saw BodyFormatTL2=%v, client set %v", id, seen.tl2, plan.TL2), nil)
					}
					if seen.actor != actor {
						st.violation("rpc-extras", "actor", fmt.Sprintf("call %d: handler saw actor %d, client set %d", id, seen.actor, actor), nil)
					}
					st.dist(fmt.Sprintf("reqflags=%08x tl2=%v kind=%d", plan.Extra.Flags, plan.TL2, plan.Kind))
					if i < 2 && w == 0 {
						st.mu.Lock()
						st.samples = append(st.samples, map[string]any{"id": id, "tl2": plan.TL2, "request_extra": plan.Extra.String(), "response_extra_set_by_handler": plan.RespExtra.String(), "error": plan.Kind == 1})
						st.mu.Unlock()
					}
					if plan.Kind == 1 {
						var re *rpc.Error
						wantCode := plan.ErrCode
						if wantCode == 0 {
							wantCode = -1 // resolved below against the library's documented Unknown code
						}
						if !errors.As(err, &re) {
							st.violation("rpc-extras", "error", fmt.Sprintf("call %d: handler returned an rpc error, client got %v", id, err), nil)
						} else {
							if plan.ErrCode != 0 && re.Code != plan.ErrCode {
								st.violation("rpc-extras", "error-code", fmt.Sprintf("call %d: error code %d arrived as %d", id, plan.ErrCode, re.Code), nil)
							}
							if plan.ErrCode == 0 && re.Code == 0 {
								st.violation("rpc-extras", "error-code", fmt.Sprintf("call %d: error code 0 must not arrive as 0", id), nil)
							}
							if re.Description != fmt.Sprintf("error for %d", id) {
								st.violation("rpc-extras", "error-description", fmt.Sprintf("call %d: description %q arrived as %q", id, fmt.Sprintf("error for %d", id), re.Description), nil)
							}
							st.add("errors_checked", 1)
						}
					} else if err != nil {
						st.violation("rpc-extras", "error", fmt.Sprintf("call %d failed: %v", id, err), nil)
					}
					if resp != nil {
						// response extra: what the handler set, restricted to the bits the request advertised
						want := plan.RespExtra
						want.Flags &= plan.Extra.Flags
						wantMasked := vMaskRespExtra(plan.RespExtra, plan.Extra.Flags)
						_ = want
						if got := vRespExtraBytes(&resp.Extra); got != vRespExtraBytes(&wantMasked) {
							st.violation("rpc-extras", "response-extra", fmt.Sprintf("call %d (request flags %08x, tl2=%v, error=%v): client saw response extra %s, handler set %s (masked: %s)", id, plan.Extra.Flags, plan.TL2, plan.Kind == 1, resp.Extra.String(), plan.RespExtra.String(), wantMasked.String()), nil)
						}
						st.add("response_extras_checked", 1)
						if wantMasked.Flags != 0 {
							st.add("response_extras_nonempty", 1)
						}
						if plan.Kind == 5 {
							st.add("longpoll_responses_checked", 1)
						}
						cl.PutResponse(resp)
					}
				}
			}(w)
		}
		wg.Wait()
		_ = cl.Close()
		close(srv.hangers)
		_ = srv.srv.Close()
	}
	st.done("rpc-extras")
}

// the response extra as a client must see it: re-decode of the handler's extra written with only the advertised bits
func vMaskRespExtra(e rpc.ResponseExtra, mask uint32) rpc.ResponseExtra {
	e.Flags &= mask
	b, err := e.WriteTL1General(nil)
	var out rpc.ResponseExtra
	if err == nil {
		_, _ = out.ReadTL1(b)
	}
	return out
}
