"""C17 runtime registry is consistent with the schema (engine A + independent text scan)."""
import binascii
import os
import re

from .. import codec, gen

ANN = ["any", "internal", "kphp", "read", "readwrite", "write"]

ANN_SCHEMA = """
int#a8509bda ? = Int;
string#b5286e24 ? = String;
---types---
svc.user#0a0b0c01 id:int name:string = svc.User;
svc.colorRed#0a0b0c02 = svc.Color;
svc.colorBlue#0a0b0c03 = svc.Color;
---functions---
@read svc.getUser#0a0b0c10 id:int = svc.User;
@write svc.putUser#0a0b0c11 id:int name:string = Int;
@admin @write svc.dropUser#0a0b0c12 id:int = Int;
@zeta @read svc.zetaRead#0a0b0c13 = Int;
@any @mid svc.anyMid#0a0b0c14 = svc.Color;
@readwrite @admin @zeta @mid svc.all#0a0b0c15 x:int = Int;
@kphp @internal svc.internalOne#0a0b0c16 = Int;
svc.plain#0a0b0c17 = Int;
"""


def scan_tl(text):
    """independent line-oriented scan of a TL1 schema: name, explicit tag, annotations, section, template-ness,
    and - for combinators without brackets/parentheses/angle brackets/percent signs - the implicit CRC32 tag"""
    text = re.sub(r"//[^\n]*", "", text)
    text = re.sub(r":\s+", ":", text)
    out = {}
    functions = False
    for part in re.split(r"(---functions---|---types---)", text):
        if part == "---functions---":
            functions = True
            continue
        if part == "---types---":
            functions = False
            continue
        for comb in part.split(";"):
            toks = comb.split()
            if not toks or "=" not in toks:
                continue
            anns = [t[1:] for t in toks if t.startswith("@")]
            toks = [t for t in toks if not t.startswith("@")]
            head = toks[0]
            m = re.fullmatch(r"([A-Za-z_][\w.]*)(?:#([0-9a-f]{1,8}))?", head)
            if not m:
                continue
            name, tag = m.group(1), m.group(2)
            template = any(t.startswith("{") for t in toks)
            builtin = "?" in toks
            simple = not re.search(r"[\[\]()<>%!{}+*]", comb)
            crc = None
            if simple and tag is None:
                canon = " ".join([name] + toks[1:])
                crc = binascii.crc32(canon.encode()) & 0xffffffff
            out[name] = {"tag": int(tag, 16) if tag else crc, "explicit": tag is not None, "ann": sorted(anns), "function": functions or "=>" in toks,
                         "template": template, "builtin": builtin}
    return out


def run(ctx):
    thorough = ctx.tier == "thorough"
    ctx.make_scratch()
    sets = codec.REPO_SETS_ALL if thorough else codec.REPO_SETS_QUICK
    configs = ["tl2all", "tl1only", "split"] + (["nobytes"] if thorough else [])
    tot = {}
    compared = 0
    # custom annotations: some declared with --annotations, some only met in the schema (the generator warns and goes on)
    ann_file = os.path.join(ctx.work, "annotations.tl")
    open(ann_file, "w").write(ANN_SCHEMA)
    files_of = dict(gen.REPO_SETS)
    files_of["annotations"] = [ann_file]
    files_of["annotations-declared"] = [ann_file]
    for s in list(sets) + ["annotations", "annotations-declared"]:
        expected = {}
        for f in files_of[s]:
            if f.endswith(".tl"):
                expected.update(scan_tl(open(f if os.path.isabs(f) else os.path.join(ctx.scratch, f)).read()))
        for c in (configs if not s.startswith("annotations") else ["tl2all", "split"]):
            if s == "annotations-declared":
                codec.CONFIGS[c + "+ann"] = dict(codec.CONFIGS[c], extra=("--annotations=zeta,admin,mid",))
                c = c + "+ann"
            p = codec.build_pkg(ctx, s, files_of[s], c, must=False)
            if not p:
                continue
            t, extra = codec.run_mode(ctx, p, "c17", env={"VERIF_VALUES": 60 if thorough else 12})
            for k, v in t.items():
                tot[k] = tot.get(k, 0) + v
            reg = None
            for ev in extra:
                if ev.get("t") == "registry":
                    reg = {it["name"]: it for it in ev["items"]}
            if reg is None:
                if any(v["sig"].get("oracle") == "child-died" and v["sig"].get("schema") == s and v["sig"].get("config") == c for v in ctx.violations):
                    ctx.note("no registry listing from %s/%s: the harness process died (reported as a violation / known finding)" % (s, c))
                else:
                    ctx.inconc("no registry listing from %s/%s" % (s, c))
                continue
            want_tl2 = codec.CONFIGS[c].get("tl2", "*") == "*"
            for name, exp in expected.items():
                if exp["template"] or exp["builtin"]:
                    continue
                it = reg.get(name)
                if it is None:
                    # constructors of unions are reachable through their union item; only functions must always be registered by name
                    if exp["function"]:
                        ctx.violation({"oracle": "registry-vs-schema", "class": "function-missing", "item": name, "schema": s, "config": c},
                                      "function %s declared in the schema is not in the registry" % name)
                    continue
                compared += 1
                ctx.distinct("%s/%s/%s" % (s, c, name))
                sig = {"oracle": "registry-vs-schema", "item": name, "schema": s, "config": c}
                if exp["tag"] is not None and it["tag"] != exp["tag"]:
                    ctx.violation(dict(sig, **{"class": "tag"}), "item %s: registry tag %08x, schema text says %08x (%s)" % (
                        name, it["tag"], exp["tag"], "explicit" if exp["explicit"] else "CRC32 of the one-line form"))
                if it["function"] != exp["function"]:
                    ctx.violation(dict(sig, **{"class": "function-ness"}), "item %s: registry IsFunction=%s, schema section says %s" % (name, it["function"], exp["function"]))
                got_ann = sorted(a for a in ANN if it[a])
                if got_ann != [a for a in exp["ann"] if a in ANN]:
                    ctx.violation(dict(sig, **{"class": "annotations"}), "item %s: registry annotations %s, schema text %s" % (name, got_ann, exp["ann"]))
                elif "annotations" in it:
                    # every Annotation<Name>() accessor of the generated registry, incl. custom annotations
                    got_all = sorted(a for a, on in it["annotations"].items() if on)
                    if got_all != sorted(a.lower() for a in exp["ann"]):
                        ctx.violation(dict(sig, **{"class": "annotations-custom"}), "item %s: Annotation*() accessors report %s, schema text says %s" % (name, got_all, exp["ann"]))
                    for a in exp["ann"]:
                        if a.lower() not in it["annotations"]:
                            ctx.violation(dict(sig, **{"class": "annotation-accessor-missing"}), "item %s: no Annotation accessor for @%s" % (name, a))
                    ctx.cov.setdefault("counters", {})["annotation_sets_compared"] = ctx.cov.get("counters", {}).get("annotation_sets_compared", 0) + 1
                if not it["tl1"]:
                    ctx.violation(dict(sig, **{"class": "tl1-availability"}), "item %s comes from a TL1 schema but the registry reports HasTL1=false" % name)
                if it["tl2"] != want_tl2:
                    ctx.violation(dict(sig, **{"class": "tl2-availability"}), "item %s: registry HasTL2=%s, --tl2WhiteList says %s" % (name, it["tl2"], want_tl2))
            if len(ctx.cov["samples"]) < 4:
                some = next(iter(reg.values()))
                ctx.sample({"schema": s, "config": c, "registry_item": some, "schema_scan": expected.get(some["name"])})
    ctx.cov["rule"] = ("per generated package: names and non-zero tags unique; lookup by name and by tag return the item; GetTLName; fresh objects report a registered "
                       "(name, tag); boxed encodings of random/hostile values start with TLTag(), the tag resolves to the object's name and an object created by "
                       "that tag reads the bytes. Expected side: an independent line-oriented scan of the .tl text (name, explicit tag or CRC32 of the one-line form "
                       "for bracket-free combinators, @annotations, section) compared with the registry listing (tag, IsFunction, annotations, HasTL1, HasTL2 per "
                       "--tl2WhiteList). distinct_nontrivial = distinct (schema, config, item) compared with the schema text.")
    ctx.count(tot.get("items", 0) + tot.get("boxed_encodings", 0))
    ctx.cov.setdefault("counters", {})["items_compared_with_schema_text"] = compared
    ctx.require("items", tot.get("items", 0), 300)
    ctx.require("items compared with the schema text", compared, 100)
    ctx.require("boxed encodings", tot.get("boxed_encodings", 0), 2000)
