"""C18 random value generation yields valid, reproducible values (engine A)."""
from .. import codec

RULE = ("per item and variant: FillRandom with N fixed seeds in a journaled child (2-96 MiB stack cap, memory ulimit): returns; every writer (TL1, TL2, JSON) "
        "accepts the value without error or panic; two fresh objects filled from the same seed encode identically; filling a previously filled object gives "
        "the same value as a fresh one; FillRandomResultTL1 likewise. A child death inside FillRandom is a violation attributed through the journal. "
        "distinct_nontrivial = distinct (item, variant, value hash bucket).")


def run(ctx):
    codec.simple_check(ctx, "c18", RULE, [("types", "types", 150), ("fills", "fills", 20000), ("result fills", "result_fills", 500)], 120, 1500,
                       count_keys=("fills", "result_fills"), fill_death_is_violation=True, random_quick=3, random_thorough=30)
