#!/usr/bin/env python3
"""verif check <ID> [--tier quick|thorough] [--replay path]"""
import argparse
import importlib
import os
import sys
import traceback

sys.path.insert(0, os.path.dirname(os.path.dirname(os.path.abspath(__file__))))
from vf import core  # noqa: E402


def main():
    ap = argparse.ArgumentParser()
    sub = ap.add_subparsers(dest="cmd", required=True)
    c = sub.add_parser("check")
    c.add_argument("id")
    c.add_argument("--tier", default=os.environ.get("VERIF_TIER", "quick"), choices=["quick", "thorough"])
    c.add_argument("--replay", default=None)
    a = ap.parse_args()
    seed = int(os.environ.get("VERIF_SEED", "1") or "1")
    pid = a.id.upper()
    mod = importlib.import_module("vf.checks." + pid.lower())
    ctx = core.Ctx(pid, a.tier, seed, a.replay)
    rc = 2
    try:
        mod.run(ctx)
        rc = ctx.finish()
    except core.CheckBroken as e:
        print("INCONCLUSIVE property=%s reason=check-machinery-failed: %s" % (pid, str(e)[:4000]))
        ctx.inconc("machinery: " + str(e)[:500])
        try:
            ctx.finish()
        except Exception:
            pass
        rc = 2
    except Exception:
        traceback.print_exc()
        print("INCONCLUSIVE property=%s reason=check-crashed" % pid)
        rc = 2
    finally:
        ctx.cleanup()
    sys.stdout.flush()
    sys.exit(rc)


if __name__ == "__main__":
    main()
