"""C04 TL1-to-TL2 conversion preserves values (engine A)."""
from .. import codec

RULE = ("for every TL1-origin item with TL2 and variant: valid TL1 bytes b1 (writer output of FillRandom / hostile read-back values) -> object -> TL2 -> fresh object "
        "-> TL1 must equal b1; JSON of the object decoded from b1 equals JSON of the object decoded from the TL2 bytes. distinct_nontrivial = distinct "
        "(item, variant, TL1 hash bucket).")


def run(ctx):
    codec.simple_check(ctx, "c04", RULE, [("types", "types", 120), ("values", "values", 4000), ("conversions", "conversions_ok", 4000)], 60, 400, random_quick=3, random_thorough=30)
