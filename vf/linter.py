"""Schema edits on the SchemaGen AST (position class known) and the linter driver (engine E)."""
import copy
import json
import os

from . import core, inpkg, schemagen
from .schemagen import T, Field, NatExpr, Constructor, Decl, Function


def combinators(s):
    """[(container decl or None, combinator-like with .fields, kind)]"""
    out = []
    for d in s.decls:
        if d.kind == "typedef" or d.base.startswith("zzNew"):
            continue  # a type added by an earlier edit of the same pair is new: changing it is no incompatibility
        for c in d.constructors:
            out.append((d, c, "constructor"))
    for f in s.functions:
        if ".zzFn" in f.name:
            continue
        out.append((None, f, "function"))
    return out


def walk_types(t, depth=0, path="top"):
    """yields (type expr, parent setter, position class)"""
    yield t, depth, path
    k = t.kind
    if k in ("vector", "tuple", "maybe", "dict"):
        yield from walk_types(t.elem, depth + 1, "type-argument" if depth == 0 else "type-argument-depth>=2")
    elif k == "pair":
        yield from walk_types(t.a, depth + 1, "type-argument" if depth == 0 else "type-argument-depth>=2")
        yield from walk_types(t.b, depth + 1, "non-first-type-argument" if depth == 0 else "type-argument-depth>=2")


def prim_positions(s):
    """all primitive leaves whose type can be changed: (owner description, type node, position class)"""
    out = []
    for d, c, kind in combinators(s):
        for f in c.fields:
            base = "brackets" if f.arr is not None else "top-level-field"
            for t, depth, path in walk_types(f.typ):
                if t.kind == "prim" and t.name in ("int", "long", "float", "double"):
                    pos = base if depth == 0 else (base + "/" + path if base == "brackets" else path)
                    out.append((c, f, t, pos + ("/function" if kind == "function" else "")))
    for fn in s.functions:
        if ".zzFn" in fn.name:
            continue
        for t, depth, path in walk_types(fn.result):
            if t.kind in ("prim",) and t.name in ("int", "long", "float", "double"):
                out.append((fn, None, t, "function-result/" + path))
    return out


def used_bits(c, maskname):
    return {f.mask[1] for f in c.fields if f.mask and f.mask[0].val == maskname}


def _passed_as_argument(c, name):
    for f in c.fields:
        for t, _, _ in walk_types(f.typ):
            if t.kind == "ref" and any(a.kind in ("field", "param") and a.val == name for a in t.args):
                return True
    res = getattr(c, "result", None)
    if res is not None:
        for t, _, _ in walk_types(res):
            if t.kind == "ref" and any(a.kind in ("field", "param") and a.val == name for a in t.args):
                return True
    return False


def mask_fields(c):
    """local field masks whose bits are given meaning only by this combinator's own fields (a mask that is also passed
    to a template as an argument has bits used elsewhere)"""
    return [f for f in c.fields if f.typ.kind == "nat" and f.arr is None and f.role == "mask" and not f.mask and not _passed_as_argument(c, f.name)]


def refs_bare(s, decl):
    """is the struct referenced bare anywhere (by constructor name or with %)"""
    found = []

    def chk(t):
        for x, _, _ in walk_types(t):
            if x.kind == "ref" and x.decl is decl and x.bare:
                found.append(x)
    for d, c, _ in combinators(s):
        for f in c.fields:
            chk(f.typ)
    for d in s.decls:
        if d.kind == "typedef":
            chk(d.inner)
    for fn in s.functions:
        chk(fn.result)
    return bool(found)


# ---------------------------------------------------------------------------------------- edits; each returns (kind, position class) or None

def e_append_masked_field(s, r, reuse_bit=False):
    cands = [(d, c, k) for d, c, k in combinators(s) if mask_fields(c)]
    if not cands:
        return None
    d, c, kind = r.pick(cands)
    m = r.pick(mask_fields(c))
    used = used_bits(c, m.name)
    if reuse_bit:
        if not used:
            return None
        bit = r.pick(sorted(used))
    else:
        free = [b for b in range(32) if b not in used]
        bit = r.pick(free[:6] + free[-2:])
    c.fields.append(Field("zz_new%d" % r.below(1000), T("prim", name="int", spelling="int"), (NatExpr("field", m.name), bit)))
    return ("append-field-reusing-mask-bit" if reuse_bit else "append-field-under-unused-bit", kind)


def e_append_unmasked_field(s, r):
    d, c, kind = r.pick(combinators(s))
    c.fields.append(Field("zz_new%d" % r.below(1000), T("prim", name="int", spelling="int")))
    return ("append-unmasked-field", kind)


def e_append_constructor(s, r):
    cands = [d for d in s.decls if d.kind in ("union", "enum")]
    if not cands:
        return None
    d = r.pick(cands)
    fields = [] if d.kind == "enum" else [Field("zz_f", T("prim", name="long", spelling="long"))]
    d.constructors.append(Constructor(d.lname + "Zz%d" % r.below(1000), (r.next() & 0xffffffff) | 1, True, fields))
    return ("append-constructor-to-boxed-only-type", "constructor")


def e_struct_to_union(s, r, want_bare):
    cands = [d for d in s.decls if d.kind == "struct" and refs_bare(s, d) == want_bare]
    if not cands:
        return None
    d = r.pick(cands)
    pos = "constructor"
    if want_bare:
        # where is it used bare? (the linter looks at field types and function results, not inside '[...]' repetitions or typedef bodies)
        outside = False
        for dd, c, _ in combinators(s):
            for f in c.fields:
                if f.arr is None and any(x.kind == "ref" and x.decl is d and x.bare for x, _, _ in walk_types(f.typ)):
                    outside = True
        for fn in s.functions:
            if any(x.kind == "ref" and x.decl is d and x.bare for x, _, _ in walk_types(fn.result)):
                outside = True
        pos = "bare-usage-in-field-or-result" if outside else "bare-usage-only-in-brackets-or-typedef"
    d.constructors.append(Constructor(d.lname + "Zz%d" % r.below(1000), (r.next() & 0xffffffff) | 1, True, []))
    d.kind = "union"
    return ("bare-type-becomes-union" if want_bare else "append-constructor-to-boxed-only-type", pos)


def e_add_type(s, r):
    d = Decl("struct", "vz", "zzNew%d" % r.below(1000), [])
    d.constructors.append(Constructor(d.lname, (r.next() & 0xffffffff) | 1, True, [Field("a", T("prim", name="int", spelling="int"))]))
    s.decls.append(d)
    return ("add-type", "schema")


def e_add_function(s, r, with_mask_first):
    fields = []
    if with_mask_first:
        f = Field("fields_mask", T("nat"))
        f.role = "mask"
        fields.append(f)
        if r.chance(1, 2):
            fields.append(Field("x", T("prim", name="int", spelling="int")))
    elif r.chance(1, 2):
        fields.append(Field("x", T("prim", name="int", spelling="int")))
    else:
        return None
    s.functions.append(Function("vz.zzFn%d" % r.below(1000), (r.next() & 0xffffffff) | 1, "read", fields, T("boxedprim", name="Int")))
    return ("add-function-with-mask-first" if with_mask_first else "add-function-without-mask-first", "function")


def e_remove_constructor(s, r):
    cands = [d for d in s.decls if d.kind in ("union", "enum") and len(d.constructors) > 2]
    if not cands:
        return None
    d = r.pick(cands)
    d.constructors.pop(r.below(len(d.constructors)))
    return ("remove-constructor", "constructor")


def e_remove_function(s, r):
    if len(s.functions) < 2:
        return None
    s.functions.pop(r.below(len(s.functions)))
    return ("remove-function", "function")


def _referenced(c, name):
    for f in c.fields:
        if f.mask and f.mask[0].val == name:
            return True
        if f.arr is not None and f.arr.kind == "field" and f.arr.val == name:
            return True
        for t, _, _ in walk_types(f.typ):
            if t.kind == "tuple" and t.size.kind == "field" and t.size.val == name:
                return True
            if t.kind == "ref" and any(a.kind in ("field", "param") and a.val == name for a in t.args):
                return True
    return False


def e_remove_field(s, r, last=True):
    cands = [(d, c, k) for d, c, k in combinators(s) if c.fields]
    r.shuffle(cands)
    for d, c, kind in cands:
        idxs = [len(c.fields) - 1] if last else list(range(len(c.fields)))
        r.shuffle(idxs)
        for i in idxs:
            f = c.fields[i]
            if f.typ.kind == "nat" and _referenced(c, f.name):
                continue
            if kind == "function" and any(t.kind == "ref" and any(a.val == f.name for a in t.args) or (t.kind == "tuple" and t.size.val == f.name) for t, _, _ in walk_types(c.result)):
                continue
            c.fields.pop(i)
            return ("remove-field", kind + ("/last" if i == len(c.fields) else "/middle"))
    return None


def e_change_prim(s, r):
    pos = prim_positions(s)
    if not pos:
        return None
    c, f, t, pclass = r.pick(pos)
    new = {"int": "long", "long": "int", "float": "double", "double": "float"}[t.name]
    t.name = new
    t.spelling = new if not t.spelling.startswith("%") else "%" + new.capitalize()
    return ("change-field-type", pclass)


def e_change_mask_bit(s, r):
    cands = [(c, f, k) for d, c, k in combinators(s) for f in c.fields if f.mask]
    if not cands:
        return None
    c, f, kind = r.pick(cands)
    f.mask = (f.mask[0], (f.mask[1] + 1 + r.below(5)) % 32)
    return ("change-mask-bit", kind)


def e_change_mask_ref(s, r):
    cands = []
    for d, c, k in combinators(s):
        for i, f in enumerate(c.fields):
            if f.mask and f.mask[0].kind == "field":
                others = [g for g in c.fields[:i] if g.typ.kind == "nat" and g.arr is None and g.name != f.mask[0].val and not g.mask]
                if others:
                    cands.append((f, others, k))
    if not cands:
        return None
    f, others, kind = r.pick(cands)
    f.mask = (NatExpr("field", r.pick(others).name), f.mask[1])
    return ("change-mask-reference", kind)


def _nat_sources(d, c, upto):
    """names a mask / size reference may point to at field index upto: earlier unmasked '#' fields and '#' template arguments"""
    out = [("field", g.name) for g in c.fields[:upto] if g.typ.kind == "nat" and g.arr is None and not g.mask]
    if d is not None:
        out += [("param", p) for p, _ in d.params]
    return out


def e_repoint_mask_ref(s, r):
    """the mask reference of an existing field moves between a template argument and a field (or between two template arguments)"""
    cands = []
    for d, c, k in combinators(s):
        for i, f in enumerate(c.fields):
            if f.mask:
                others = [x for x in _nat_sources(d, c, i) if x != (f.mask[0].kind, f.mask[0].val)]
                if any(x[0] == "param" for x in others) or f.mask[0].kind == "param":
                    if others:
                        cands.append((f, others, k))
    if not cands:
        return None
    f, others, kind = r.pick(cands)
    was = f.mask[0].kind
    nk, nv = r.pick(others)
    f.mask = (NatExpr(nk, nv), f.mask[1])
    return ("change-mask-reference", "%s->%s/%s" % (was, nk, kind))


def e_repoint_size_ref(s, r):
    """the size parameter of an existing array field (n*[T] or tuple T n) moves to another '#' source"""
    cands = []
    for d, c, k in combinators(s):
        for i, f in enumerate(c.fields):
            sz = f.arr if f.arr is not None else (f.typ.size if f.typ.kind == "tuple" else None)
            if sz is None or sz.kind == "const":
                continue
            others = [x for x in _nat_sources(d, c, i) if x != (sz.kind, sz.val)]
            if others:
                cands.append((f, sz, others, k))
    if not cands:
        return None
    f, sz, others, kind = r.pick(cands)
    was = sz.kind
    nk, nv = r.pick(others)
    if f.arr is not None:
        f.arr = NatExpr(nk, nv)
        return ("change-size-reference", "brackets/%s->%s/%s" % (was, nk, kind))
    f.typ.size = NatExpr(nk, nv)
    return ("change-size-reference", "tuple-argument/%s->%s/%s" % (was, nk, kind))


def e_append_two_fields_same_bit(s, r):
    """two appended fields guarded by the same, so far unused, bit of an existing local mask that already has a used bit"""
    cands = [(d, c, k, m) for d, c, k in combinators(s) for m in mask_fields(c) if used_bits(c, m.name)]
    if not cands:
        return None
    d, c, kind, m = r.pick(cands)
    free = [b for b in range(32) if b not in used_bits(c, m.name)]
    bit = r.pick(free[:6] + free[-2:])
    n = r.below(1000)
    c.fields.append(Field("zz_p%d" % n, T("prim", name="int", spelling="int"), (NatExpr("field", m.name), bit)))
    c.fields.append(Field("zz_q%d" % n, T("prim", name="string", spelling="string"), (NatExpr("field", m.name), bit)))
    return ("append-two-fields-under-one-unused-bit", kind)


def _param_mask_free_bits(s, d, pname, want_const_bit=False):
    """bits of template mask parameter pname that nothing in the schema can have given a meaning: only when the parameter is used as a
    mask by the type's own fields and never forwarded, and every use of the type passes a constant or a '#' that nothing else uses"""
    for c in d.constructors:
        if _passed_as_argument(c, pname) or any((f.arr is not None and f.arr.val == pname) or (f.typ.kind == "tuple" and f.typ.size.val == pname) for f in c.fields):
            return None
    used = set()
    for c in d.constructors:
        used |= {f.mask[1] for f in c.fields if f.mask and f.mask[0].kind == "param" and f.mask[0].val == pname}
    idx = [p for p, _ in d.params].index(pname)
    consts = []
    for dd, c, _ in combinators(s):
        holders = list(c.fields) + ([Field("<result>", c.result)] if hasattr(c, "result") else [])
        for f in holders:
            for t, _, _ in walk_types(f.typ):
                if t.kind == "ref" and t.decl is d:
                    a = t.args[idx]
                    if a.kind == "const":
                        consts.append(a.val)
                        continue
                    if a.kind != "field":
                        return None
                    # the '#' field that feeds the mask must feed nothing else and guard nothing itself
                    src = [g for g in c.fields if g.name == a.val]
                    if not src or used_bits(c, a.val):
                        return None
                    n_uses = sum(1 for g in holders for tt, _, _ in walk_types(g.typ) if tt.kind == "ref" and any(x.kind == "field" and x.val == a.val for x in tt.args))
                    if n_uses != 1 or any((g.arr is not None and g.arr.val == a.val) or (g.typ.kind == "tuple" and g.typ.size.val == a.val) for g in c.fields):
                        return None
    for dd in s.decls:
        if dd.kind == "typedef":
            for t, _, _ in walk_types(dd.inner):
                if t.kind == "ref" and t.decl is d:
                    return None
    if want_const_bit:
        return [b for b in range(32) if b not in used and any((cv >> b) & 1 for cv in consts)]
    return [b for b in range(32) if b not in used and not any((cv >> b) & 1 for cv in consts)]


def e_append_field_every_union_constructor(s, r, const_bit=False):
    """the same masked field appended to every constructor of a union whose mask is a template argument"""
    cands = []
    for d in s.decls:
        if d.kind == "union" and d.params:
            for pname, role in d.params:
                if role == "mask":
                    free = _param_mask_free_bits(s, d, pname, const_bit)
                    if free:
                        cands.append((d, pname, free))
    if not cands:
        return None
    d, pname, free = r.pick(cands)
    bit = r.pick(free[:6] + free[-2:])
    n = r.below(1000)
    for c in d.constructors:
        c.fields.append(Field("zz_u%d" % n, T("prim", name="int", spelling="int"), (NatExpr("param", pname), bit)))
    if const_bit:
        return ("append-field-under-template-mask-bit-that-a-constant-argument-sets", "constructor")
    return ("append-field-to-every-constructor-under-template-mask", "constructor")


def e_insert_function(s, r):
    """a new function with a field mask first, placed before or between the old functions"""
    f = Field("fields_mask", T("nat"))
    f.role = "mask"
    fields = [f] + ([Field("x", T("prim", name="int", spelling="int"))] if r.chance(1, 2) else [])
    fn = Function("vz.zzIns%d" % r.below(1000), (r.next() & 0xffffffff) | 1, "read", fields, T("boxedprim", name="Int"))
    s.functions.insert(r.below(len(s.functions)) if s.functions else 0, fn)
    return ("insert-function-with-mask-first-before-old-functions", "function")


def e_swap_nat_names(s, r):
    """two '#' declarations (fields or template arguments) exchange their names while every reference keeps its text: references now point elsewhere"""
    cands = []
    for d, c, k in combinators(s):
        nats = [g for g in c.fields if g.typ.kind == "nat" and g.arr is None and not g.mask]
        refd = [g for g in nats if _referenced(c, g.name)]
        if len(nats) >= 2 and refd:
            cands.append(("fields", d, c, k, nats, refd))
        if d is not None and len(d.params) >= 2 and any(_referenced(cc, p) for cc in d.constructors for p, _ in d.params):
            cands.append(("params", d, c, k, None, None))
    if not cands:
        return None
    what, d, c, kind, nats, refd = r.pick(cands)
    if what == "fields":
        a = r.pick(refd)
        # the partner must also be declared before the first reference to either name (no forward references after the swap)
        def first_ref(name):
            for i, f in enumerate(c.fields):
                if (f.mask and f.mask[0].val == name) or (f.arr is not None and f.arr.kind == "field" and f.arr.val == name) or any(
                        (t.kind == "tuple" and t.size.kind == "field" and t.size.val == name) or (t.kind == "ref" and any(x.kind == "field" and x.val == name for x in t.args)) for t, _, _ in walk_types(f.typ)):
                    return i
            return len(c.fields)
        others = [g for g in nats if g is not a]
        limit = min(first_ref(a.name), min(first_ref(g.name) for g in others))
        others = [g for g in others if c.fields.index(g) < limit and c.fields.index(a) < limit]
        if not others:
            return None
        b = r.pick(others)
        where = set()
        for f in c.fields:
            for nm in (a.name, b.name):
                if f.mask and f.mask[0].val == nm:
                    where.add("mask")
                if f.arr is not None and f.arr.kind == "field" and f.arr.val == nm:
                    where.add("brackets")
                for t, _, _ in walk_types(f.typ):
                    if t.kind == "tuple" and t.size.kind == "field" and t.size.val == nm:
                        where.add("brackets" if f.arr is not None else "tuple-argument")
                    if t.kind == "ref" and any(x.kind == "field" and x.val == nm for x in t.args):
                        where.add("brackets" if f.arr is not None else "template-argument")
        a.name, b.name = b.name, a.name
        return ("swap-names-of-two-nat-fields", "referenced-in-" + "+".join(sorted(where)) + "/" + kind)
    i, j = 0, 1 + r.below(len(d.params) - 1)
    where = set()
    for cc in d.constructors:
        for f in cc.fields:
            for nm in (d.params[i][0], d.params[j][0]):
                if f.mask and f.mask[0].val == nm:
                    where.add("mask")
                if f.arr is not None and f.arr.val == nm:
                    where.add("brackets")
                for t, _, _ in walk_types(f.typ):
                    if t.kind == "tuple" and t.size.val == nm:
                        where.add("brackets" if f.arr is not None else "tuple-argument")
                    if t.kind == "ref" and any(x.val == nm for x in t.args if x.kind in ("param", "field")):
                        where.add("brackets" if f.arr is not None else "template-argument")
    if not where:
        return None
    d.params[i], d.params[j] = (d.params[j][0], d.params[i][1]), (d.params[i][0], d.params[j][1])
    return ("swap-names-of-two-template-arguments", "referenced-in-" + "+".join(sorted(where)) + "/type")


def e_move_constructor(s, r):
    """a constructor moves to another type while its old type gets a new constructor (the count does not drop)"""
    unions = [d for d in s.decls if d.kind in ("union", "enum") and not d.params]
    if len(unions) < 2:
        return None
    src = r.pick(unions)
    dst = r.pick([d for d in unions if d is not src])
    i = r.below(len(src.constructors))
    c = src.constructors.pop(i)
    if not c.explicit:
        c.explicit = True
    dst.constructors.append(c)
    src.constructors.append(Constructor("%sZz%d" % (src.lname, r.below(1000)), (r.next() & 0xffffffff) | 1, True, []))
    return ("move-constructor-to-another-type", "constructor")


def e_replace_function(s, r):
    """a function disappears (removed or renamed) while new, acceptable functions are added in the same edit: the count does not drop"""
    if not s.functions:
        return None
    i = r.below(len(s.functions))
    old = s.functions[i]
    k = r.below(3)
    if k == 0:
        old.name = old.name + "Renamed"
        return ("rename-function", "function")
    s.functions.pop(i)
    for _ in range(1 + r.below(2)):
        f = Field("fields_mask", T("nat"))
        f.role = "mask"
        s.functions.append(Function("vz.zzRep%d" % r.below(100000), (r.next() & 0xffffffff) | 1, "read", [f], T("boxedprim", name="Int")))
    return ("remove-function-and-add-new-ones", "function")


def recursion_family(r):
    """mutually recursive types that forward one external field mask to each other; returns (old schema, new schema, kind):
    the new schema appends a field under a bit that the *other* type of the cycle already gives a meaning to"""
    from .schemagen import Schema
    s = Schema()
    bits = list(range(32))
    r.shuffle(bits)
    xb, yb, zb = bits[0], bits[1], bits[2]
    names = ["alpha", "beta", "gamma"]
    r.shuffle(names)
    i32 = lambda: T("prim", name="int", spelling="int")

    def tmpl(base, p):
        d = Decl("struct", "vz", base, [(p, "mask")])
        d.constructors.append(Constructor(d.lname, (r.next() & 0xffffffff) | 1, True, []))
        return d
    b = tmpl(names[0], "k")
    a = tmpl(names[1], "m")
    vec = lambda d, p: T("vector", elem=T("ref", decl=d, bare=False, pct=False, args=[NatExpr("param", p)]), form="boxed")
    extra_b = [Field("pad", i32())] if r.chance(1, 2) else []
    b.constructors[0].fields = extra_b + [Field("as", vec(a, "k")), Field("y", i32(), (NatExpr("param", "k"), yb))]
    a.constructors[0].fields = [Field("x", i32(), (NatExpr("param", "m"), xb)), Field("bs", vec(b, "m")), Field("z", i32(), (NatExpr("param", "m"), zb))]
    top = Decl("struct", "vz", names[2], [])
    n = Field("n", T("nat"))
    n.role = "mask"
    top.constructors.append(Constructor(top.lname, (r.next() & 0xffffffff) | 1, True, [n, Field("v", T("ref", decl=a, bare=False, pct=False, args=[NatExpr("field", "n")]))]))
    s.decls = [b, a, top] if r.chance(2, 3) else [a, b, top]
    import copy as _copy
    s2 = _copy.deepcopy(s)
    a2 = [d for d in s2.decls if d.base == names[1]][0]
    b2 = [d for d in s2.decls if d.base == names[0]][0]
    if r.chance(2, 3):
        a2.constructors[0].fields.append(Field("w", i32(), (NatExpr("param", "m"), yb)))
    else:
        b2.constructors[0].fields.append(Field("w", i32(), (NatExpr("param", "k"), r.pick([xb, zb]))))
    return s, s2, ("append-field-under-bit-used-by-the-other-type-of-a-cycle", "mutually-recursive-templates")


def e_add_mask(s, r):
    cands = []
    for d, c, k in combinators(s):
        for i, f in enumerate(c.fields):
            if not f.mask and f.typ.kind != "nat":
                ms = [g for g in c.fields[:i] if g.typ.kind == "nat" and g.arr is None and not g.mask]
                if ms:
                    cands.append((f, ms, k))
    if not cands:
        return None
    f, ms, kind = r.pick(cands)
    f.mask = (NatExpr("field", r.pick(ms).name), r.below(32))
    return ("add-mask-to-field", kind)


def e_remove_mask(s, r):
    cands = [(f, k) for d, c, k in combinators(s) for f in c.fields if f.mask and f.typ.kind not in ("true",)]
    if not cands:
        return None
    f, kind = r.pick(cands)
    f.mask = None
    return ("remove-mask-from-field", kind)


def e_remove_template_arg(s, r):
    cands = [d for d in s.decls if d.params]
    r.shuffle(cands)
    for d in cands:
        i = len(d.params) - 1
        pname = d.params[i][0]
        if any(_referenced(c, pname) for c in d.constructors):
            continue
        d.params.pop(i)
        # all uses lose their last argument
        for dd, c, _ in combinators(s):
            for f in c.fields:
                for t, _, _ in walk_types(f.typ):
                    if t.kind == "ref" and t.decl is d:
                        t.args = t.args[:i]
        for fn in s.functions:
            for t, _, _ in walk_types(fn.result):
                if t.kind == "ref" and t.decl is d:
                    t.args = t.args[:i]
        for dd in s.decls:
            if dd.kind == "typedef":
                for t, _, _ in walk_types(dd.inner):
                    if t.kind == "ref" and t.decl is d:
                        t.args = t.args[:i]
        return ("remove-template-argument", "type")
    return None


def e_neutral(s, r):
    k = r.below(3)
    if k == 0 and len(s.decls) > 1:
        s.decls.append(s.decls.pop(r.below(len(s.decls))))
        return ("reorder-combinators", "schema")
    if k == 1 and len(s.functions) > 1:
        s.functions.reverse()
        return ("reorder-functions", "schema")
    cands = [(c, f) for d, c, kk in combinators(s) for f in c.fields if f.typ.kind != "nat"]
    if not cands:
        return None
    c, f = r.pick(cands)
    f.name = f.name + "Rn"
    return ("rename-field", "field")


SAFE = [lambda s, r: e_append_masked_field(s, r), e_append_constructor, e_add_type, lambda s, r: e_add_function(s, r, True), lambda s, r: e_struct_to_union(s, r, False),
        e_append_two_fields_same_bit, e_append_field_every_union_constructor, e_insert_function]
UNSAFE = [e_remove_constructor, e_remove_function, lambda s, r: e_remove_field(s, r, True), lambda s, r: e_remove_field(s, r, False), e_change_prim, e_change_prim, e_change_prim,
          e_change_mask_bit, e_change_mask_ref, e_add_mask, e_remove_mask, e_append_unmasked_field, lambda s, r: e_append_masked_field(s, r, True),
          lambda s, r: e_struct_to_union(s, r, True), e_remove_template_arg, e_repoint_mask_ref, e_repoint_size_ref,
          lambda s, r: e_append_field_every_union_constructor(s, r, True), e_swap_nat_names, e_move_constructor, e_replace_function]


def run_linter(ctx, pairs):
    """pairs: list of (old text, new text); returns list of (verdict, msg)"""
    cf = os.path.join(ctx.work, "lint_cases_%d.jsonl" % len(pairs))
    with open(cf, "w") as f:
        for i, (o, n) in enumerate(pairs):
            f.write(json.dumps({"id": i, "old": o, "new": n}) + "\n")
    r, ev = inpkg.run_inpkg(ctx, "vlint", "internal/tlcodegen/vlint", "^TestVerifLint$", env={"VERIF_LINT_CASES": cf}, timeout=1800)
    inpkg.absorb(ctx, r, [e for e in ev if e.get("t") != "verdict"], "linter")
    out = {e["id"]: (e["verdict"], e.get("msg", "")) for e in ev if e.get("t") == "verdict"}
    return [out.get(i, ("MISSING", "")) for i in range(len(pairs))]


def small_schema(seed, label):
    return schemagen.generate(seed, label, max_types=9, anon_pairs=False)
