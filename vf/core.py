"""Core of the /verif framework: scratch copies of /repo, builds, journaled children,
three-valued verdicts, known findings, evidence files.

Every check is `bin/verif check <ID> --tier quick|thorough`.  A check never touches /repo:
it rsyncs /repo's working tree to a scratch copy outside /repo and /verif, injects harness
files from /verif/harness (all carry the `verif` build tag), builds and runs there.
"""
import hashlib
import json
import os
import re
import shutil
import subprocess
import sys
import time

REPO = os.environ.get("VERIF_REPO", "/repo")
VERIF = os.path.dirname(os.path.dirname(os.path.abspath(__file__)))
SCRATCH_ROOT = os.environ.get("VERIF_SCRATCH", "/var/tmp/verif-scratch")
GO124 = "/root/go/pkg/mod/golang.org/toolchain@v0.0.1-go1.24.0.linux-amd64/bin"
MODULE = "github.com/VKCOM/tl"
TAG = "verif"


def goenv(extra=None):
    e = dict(os.environ)
    e["PATH"] = GO124 + ":" + e.get("PATH", "")
    e["GOTOOLCHAIN"] = "local"
    e["GOSUMDB"] = "off"
    e["GOPROXY"] = "off"
    e["GOFLAGS"] = "-mod=mod"
    e.pop("GOMAXPROCS", None)
    if extra:
        e.update(extra)
    return e


class SplitMix:
    """Deterministic PRNG (SplitMix64); all randomness of a check derives from VERIF_SEED."""

    def __init__(self, seed):
        self.s = seed & 0xFFFFFFFFFFFFFFFF

    def next(self):
        self.s = (self.s + 0x9E3779B97F4A7C15) & 0xFFFFFFFFFFFFFFFF
        z = self.s
        z = ((z ^ (z >> 30)) * 0xBF58476D1CE4E5B9) & 0xFFFFFFFFFFFFFFFF
        z = ((z ^ (z >> 27)) * 0x94D049BB133111EB) & 0xFFFFFFFFFFFFFFFF
        return z ^ (z >> 31)

    def below(self, n):
        return self.next() % n if n > 0 else 0

    def chance(self, num, den):
        return self.below(den) < num

    def pick(self, seq):
        return seq[self.below(len(seq))]

    def fork(self, label):
        h = hashlib.sha256((str(self.s) + "/" + str(label)).encode()).digest()
        return SplitMix(int.from_bytes(h[:8], "little"))

    def shuffle(self, lst):
        for i in range(len(lst) - 1, 0, -1):
            j = self.below(i + 1)
            lst[i], lst[j] = lst[j], lst[i]


def stream(seed, label):
    h = hashlib.sha256(("%d/%s" % (seed, label)).encode()).digest()
    return SplitMix(int.from_bytes(h[:8], "little"))


class CheckBroken(Exception):
    """The machinery could not do its job (build of harness failed for a reason that is
    not the property...).  Reported as INCONCLUSIVE, exit 2 -- never as a violation."""


class Ctx:
    def __init__(self, pid, tier, seed, replay=None):
        self.pid = pid
        self.tier = tier
        self.seed = seed
        self.replay = replay
        self.t0 = time.time()
        self.scratch = None
        self.violations = []  # dicts: sig, desc, replay(dict of files)
        self.inconclusive = []
        self.notes = []
        self.cov = {"evaluations": 0, "distinct_nontrivial": 0, "rule": "", "samples": []}
        self.assumptions = []
        self.level = "exploration"
        self.minobs = []  # (label, got, need)
        self._distinct = set()
        self.keep_scratch = bool(os.environ.get("VERIF_KEEP"))

    # ---- scratch copy -------------------------------------------------------------
    def make_scratch(self, inject=(), need_qtc_rule=True):
        os.makedirs(SCRATCH_ROOT, exist_ok=True)
        d = os.path.join(SCRATCH_ROOT, "%s-%s-%d" % (self.pid, self.tier, os.getpid()))
        if os.path.exists(d):
            shutil.rmtree(d, ignore_errors=True)
        os.makedirs(d)
        sc = os.path.join(d, "sc")
        subprocess.run(["rsync", "-a", "--exclude", ".git", "--exclude", "/target", REPO + "/", sc + "/"], check=True)
        self.scratch_root = d
        self.scratch = sc
        self.work = os.path.join(d, "work")
        os.makedirs(self.work)
        if need_qtc_rule:
            self.apply_template_staleness_rule()
        for src, dst in inject:
            self.inject(src, dst)
        return sc

    def inject(self, src, dst):
        """copy /verif/harness/<src> (file or dir) to <scratch>/<dst>"""
        s = os.path.join(VERIF, "harness", src)
        t = os.path.join(self.scratch, dst)
        if os.path.isdir(s):
            shutil.copytree(s, t, dirs_exist_ok=True)
        else:
            os.makedirs(os.path.dirname(t), exist_ok=True)
            shutil.copy(s, t)

    def apply_template_staleness_rule(self):
        """DESIGN section 2: a reproducible .qtpl.go that is byte-identical to the pinned
        one while its .qtpl differs from the pinned one is regenerated with qtc."""
        try:
            pinned = json.load(open(os.path.join(VERIF, "data", "pinned_hashes.json")))
        except FileNotFoundError:
            return
        stale = []
        for rel, ent in pinned.items():
            if not ent.get("reproducible"):
                continue
            q = os.path.join(self.scratch, rel)
            g = q + ".go"
            if not (os.path.exists(q) and os.path.exists(g)):
                continue
            if sha(g) == ent["go"] and sha(q) != ent["qtpl"]:
                stale.append(rel)
        if not stale:
            return
        qtc = os.path.join(self.scratch_root, "qtc")
        r = self.run(["go", "build", "-o", qtc, "github.com/valyala/quicktemplate/qtc"], cwd=self.scratch, timeout=300)
        if r.rc != 0:
            self.note("qtc build failed; stale templates not regenerated: %s" % stale)
            return
        for rel in stale:
            q = os.path.join(self.scratch, rel)
            r = self.run([qtc, "-skipLineComments", "-file=" + os.path.basename(q)], cwd=os.path.dirname(q), timeout=120)
            self.note("template staleness rule: regenerated %s.go from edited template (rc=%d)" % (rel, r.rc))

    def cleanup(self):
        if self.scratch and not self.keep_scratch:
            shutil.rmtree(self.scratch_root, ignore_errors=True)

    # ---- processes ----------------------------------------------------------------
    def run(self, cmd, cwd=None, timeout=600, env=None, mem_gb=None, stdin=None, outfile=None, quit_dump=False):
        """run a child with stdout+stderr to a file (not a pipe), a watchdog, optional ulimit -v"""
        if outfile is None:
            self._n = getattr(self, "_n", 0) + 1
            base = self.work if self.scratch else "/var/tmp"
            outfile = os.path.join(base, "out-%d-%d.txt" % (os.getpid(), self._n))
        e = goenv(env)
        pre = ""
        if mem_gb:
            pre = "ulimit -v %d; " % int(mem_gb * 1024 * 1024)
        sig = "QUIT" if quit_dump else "KILL"
        sh = pre + 'exec timeout -s %s -k 5 %d "$@"' % (sig, int(timeout))
        t0 = time.time()
        with open(outfile, "wb") as f:
            p = subprocess.run(["bash", "-c", sh, "x"] + list(cmd), cwd=cwd or self.scratch, env=e, stdout=f,
                               stderr=subprocess.STDOUT, stdin=(open(stdin, "rb") if stdin else subprocess.DEVNULL))
        return RunResult(p.returncode, outfile, time.time() - t0)

    def gobuild(self, pkg, out, race=False, tags=TAG, timeout=900, extra=()):
        cmd = ["go", "build", "-trimpath", "-tags", tags, "-o", out]
        if race:
            cmd.append("-race")
        cmd += list(extra) + [pkg]
        return self.run(cmd, cwd=self.scratch, timeout=timeout)

    def gotest_build(self, pkg, out, race=False, tags=TAG, timeout=900):
        cmd = ["go", "test", "-c", "-trimpath", "-vet=off", "-tags", tags, "-o", out]
        if race:
            cmd.append("-race")
        cmd.append(pkg)
        return self.run(cmd, cwd=self.scratch, timeout=timeout)

    def need(self, r, what):
        if r.rc != 0:
            raise CheckBroken("%s failed (rc=%d): %s" % (what, r.rc, r.tail(2000)))
        return r

    # ---- observations -------------------------------------------------------------
    def note(self, s):
        self.notes.append(s)

    def count(self, n=1):
        self.cov["evaluations"] += n

    def distinct(self, key):
        self._distinct.add(key)

    def add_distinct_count(self, n):
        self.cov["_extra_distinct"] = self.cov.get("_extra_distinct", 0) + n

    def sample(self, s, cap=8):
        if len(self.cov["samples"]) < cap:
            self.cov["samples"].append(s)

    def violation(self, sig, desc, replay=None):
        self.violations.append({"sig": sig, "desc": desc, "replay": replay or {}})

    def inconc(self, reason):
        self.inconclusive.append(reason)

    def require(self, label, got, need):
        self.minobs.append((label, got, need))

    # ---- verdict ------------------------------------------------------------------
    def finish(self):
        known = load_known(self.pid)
        unknown = []
        hit = {}
        for v in self.violations:
            m = match_known(known, v["sig"])
            if m is not None:
                hit.setdefault(m["id"], [m, 0])[1] += 1
            else:
                unknown.append(v)
        for kid, (m, n) in sorted(hit.items()):
            print("KNOWN-FINDING: property=%s %s [%s, observed %d times this run]" % (self.pid, m["what"], kid, n))
        rc = 0
        rdir = os.path.join(os.environ.get("VERIF_REPLAY_DIR") or os.path.join(VERIF, "replay"), self.pid)
        shutil.rmtree(rdir, ignore_errors=True)
        seen = set()
        nrep = 0
        if os.environ.get("VERIF_DUMP_SIGS"):
            with open(os.environ["VERIF_DUMP_SIGS"], "w") as f:
                for v in self.violations:
                    f.write(json.dumps({"sig": v["sig"], "desc": v["desc"][:600], "input": str(v.get("replay", {}).get("input.txt", ""))[:3000]}) + "\n")
        for v in unknown:
            key = json.dumps(v["sig"], sort_keys=True)
            if key in seen:
                continue
            seen.add(key)
            if nrep >= 12:
                continue
            nrep += 1
            d = os.path.join(rdir, "%d" % nrep)
            os.makedirs(d, exist_ok=True)
            with open(os.path.join(d, "violation.json"), "w") as f:
                json.dump({"property": self.pid, "sig": v["sig"], "desc": v["desc"], "seed": self.seed, "tier": self.tier,
                           "cmd": "bin/verif check %s --tier %s (VERIF_SEED=%d)" % (self.pid, self.tier, self.seed)}, f, indent=1)
            for name, content in v["replay"].items():
                p = os.path.join(d, name)
                os.makedirs(os.path.dirname(p), exist_ok=True)
                mode = "wb" if isinstance(content, bytes) else "w"
                with open(p, mode) as f:
                    f.write(content)
            print("VIOLATION property=%s replay=%s" % (self.pid, d))
            print("  " + v["desc"][:1500].replace("\n", "\n  "))
            rc = 1
        for r in self.inconclusive[:20]:
            print("INCONCLUSIVE property=%s reason=%s" % (self.pid, r))
        short = [(l, g, n) for (l, g, n) in self.minobs if g < n]
        if short and rc == 0:
            for (l, g, n) in short:
                print("INCONCLUSIVE property=%s reason=min-observations-not-met %s: %d < %d" % (self.pid, l, g, n))
            rc = 2
        cov = dict(self.cov)
        cov["distinct_nontrivial"] = len(self._distinct) + cov.pop("_extra_distinct", 0)
        if not cov["samples"]:
            cov["samples"] = [{"note": "the harness emitted no per-case sample; aggregate counters of this run", "counters": cov.get("counters", {})}]
        cov["min_observations"] = [{"what": l, "observed": g, "required": n} for (l, g, n) in self.minobs]
        cov["known_findings_observed"] = {k: n for k, (m, n) in hit.items()}
        cov["inconclusive"] = self.inconclusive[:50]
        cov["notes"] = self.notes[:50]
        ev = {"property_id": self.pid, "tier": self.tier, "seed": self.seed, "level": self.level, "coverage": cov,
              "assumptions": self.assumptions, "wall_s": round(time.time() - self.t0, 2),
              "violations": len(unknown)}
        evdir = os.environ.get("VERIF_EVIDENCE_DIR") or os.path.join(VERIF, "evidence")
        os.makedirs(evdir, exist_ok=True)
        with open(os.path.join(evdir, self.pid + ".json"), "w") as f:
            json.dump(ev, f, indent=1, default=str)
            f.write("\n")
        print("%s %s seed=%d: %s; evaluations=%d distinct_nontrivial=%d known=%d inconclusive=%d wall=%.0fs" % (
            self.pid, self.tier, self.seed, "HELD on what was observed" if rc == 0 else ("VIOLATED" if rc == 1 else "INCONCLUSIVE"),
            cov["evaluations"], cov["distinct_nontrivial"], sum(n for _, n in hit.values()), len(self.inconclusive),
            time.time() - self.t0))
        return rc


class RunResult:
    def __init__(self, rc, outfile, wall):
        self.rc = rc
        self.outfile = outfile
        self.wall = wall

    def text(self, limit=None):
        with open(self.outfile, "rb") as f:
            b = f.read() if limit is None else f.read(limit)
        return b.decode("utf-8", "replace")

    def tail(self, n=3000):
        with open(self.outfile, "rb") as f:
            f.seek(0, 2)
            sz = f.tell()
            f.seek(max(0, sz - n))
            return f.read().decode("utf-8", "replace")

    def crash_head(self, n=2500):
        """the part of the output where a fatal error / panic starts (not the goroutine dump at the end)"""
        t = self.text()
        best = -1
        for pat in ("runtime: goroutine stack exceeds", "fatal error:", "panic:", "SIGSEGV", "signal: killed", "out of memory"):
            i = t.find(pat)
            if i >= 0 and (best < 0 or i < best):
                best = i
        if best < 0:
            return t[-n:]
        return t[max(0, best - 200):best + n]

    def lines(self):
        with open(self.outfile, "r", errors="replace") as f:
            for l in f:
                yield l.rstrip("\n")

    def json_lines(self, prefix="@@"):
        """harness protocol: every line that starts with '@@' carries one JSON object"""
        for l in self.lines():
            if l.startswith(prefix):
                try:
                    yield json.loads(l[len(prefix):])
                except ValueError:
                    pass

    @property
    def timed_out(self):
        return self.rc in (124, 137)


def sha(path):
    h = hashlib.sha256()
    with open(path, "rb") as f:
        h.update(f.read())
    return h.hexdigest()


def load_known(pid):
    out = []
    p = os.path.join(VERIF, "known_findings.jsonl")
    if not os.path.exists(p):
        return out
    for l in open(p):
        l = l.strip()
        if not l or l.startswith("#"):
            continue
        e = json.loads(l)
        if pid in e["property"].split(",") and e["status"] == "known":
            out.append(e)
    return out


def match_known(known, sig):
    for e in known:
        ok = True
        for k, pat in e["match"].items():
            if k not in sig or re.fullmatch(pat, str(sig[k]), re.S) is None:
                ok = False
                break
        if ok:
            return e
    return None


def tree_hash(root):
    out = {}
    for dp, dn, fn in os.walk(root):
        dn.sort()
        for f in sorted(fn):
            p = os.path.join(dp, f)
            if os.path.islink(p):
                out[os.path.relpath(p, root)] = "link:" + os.readlink(p)
            else:
                out[os.path.relpath(p, root)] = sha(p)
    return out


PANIC_PATTERNS = re.compile(r"(^panic: |\[recovered\]|^goroutine \d+ \[|^fatal error: |runtime error: |internal error|will not compile)", re.M)
