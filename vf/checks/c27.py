"""C27 TL1-to-TL2 migration preserves the TL2 wire format and JSON (engine A + generator process)."""
import glob
import os
import re
import shutil

from .. import codec, core, gen, schemagen


CRAFTED = [
    ("vz.point x:int y:int = vz.Point;\nvy.holder pts:(vector vz.point) = vy.Holder;\n", "vz."),
    ("vz.point x:int y:int = vz.Point;\nvy.holder pts:(Vector vz.Point) n:int = vy.Holder;\n", "vz."),
    ("vz.point x:int y:int = vz.Point;\nvy.holder m:(Maybe vz.point) = vy.Holder;\n", "vz."),
    ("vz.point x:int y:int = vz.Point;\nvy.holder d:(dictionary vz.point) t:(tuple vz.point 2) = vy.Holder;\n", "vz."),
    ("vz.point x:int y:int = vz.Point;\nvy.gen {n:#} a:n*[int] = vy.Gen n;\nvy.holder p:(pair int (vector vz.Point)) = vy.Holder;\n", "vz."),
    ("vz.point x:int y:int = vz.Point;\n---functions---\n@read vy.list id:int = Vector vz.Point;\n@read vy.one id:int = Maybe vz.point;\n", "vz."),
    ("vz.point x:int y:int = vz.Point;\nvz.line a:vz.point b:vz.point = vz.Line;\nvy.holder n:int = vy.Holder;\n---functions---\n@read vy.get id:int = vy.Holder;\n@read vz.getLine id:int = vz.Line;\n", "vz."),
    ("vz.point x:int y:int = vz.Point;\nvy.holder pts:(vector vz.point) = vy.Holder;\n", "vy."),
    ("vz.point x:int y:int = vz.Point;\nvy.holder pts:(vector vz.point) = vy.Holder;\n", "vz.point"),
    # user templates that share the short name of a built-in container
    ("geo.vector {t:Type} x:t y:t = geo.Vector t;\ngeo.tuple {t:Type} {n:#} first:t rest:n*[t] = geo.Tuple t n;\n"
     "geo.segment from:(geo.vector int) to:(geo.vector int) tags:(vector int) tri:(geo.tuple int 3) = geo.Segment;\n"
     "---functions---\n@read geo.getSegment id:int = geo.Vector long;\n", "geo."),
    ("geo.vector {t:Type} x:t y:t = geo.Vector t;\nvy.dictionary {t:Type} k:string v:t = vy.Dictionary t;\nvy.maybe {t:Type} has:int v:t = vy.Maybe t;\n"
     "vy.holder a:(geo.Vector int) d:(vy.dictionary int) m:(vy.maybe int) e:(Maybe int) = vy.Holder;\n", "*"),
    # comments and line breaks inside combinators (the migrator carries them over)
    ("sh.shapeCircle\n    r:int // radius\n    = sh.Shape;\nsh.shapeRect\n    w:int // width\n    h:int // height\n    = sh.Shape;\n"
     "sh.box // a box\n    s:sh.Shape // the shape\n    n:int // count\n    = sh.Box;\n"
     "---functions---\n@read sh.get // fn\n    id:int // the id\n    = sh.Box;\n", "sh."),
    ("// leading comment\nsh.a x:int = sh.U; // trailing a\nsh.b y:string // why\n = sh.U; // trailing b\nsh.e1 = sh.E; // first\nsh.e2 = sh.E; // second\n"
     "sh.w\n  f:# // mask\n  a:f.0?int // opt\n  = sh.W;\n", "*"),
]


def one(ctx, name, src_files, whitelist, thorough, tot, c):
    """migrate copies of src_files with the whitelist and compare the two generated packages"""
    key = re.sub(r"\W", "_", name)
    d = os.path.join(ctx.work, "mig_" + key)
    shutil.rmtree(d, ignore_errors=True)
    os.makedirs(d)
    files = []
    for f in src_files:
        t = os.path.join(d, os.path.basename(f))
        shutil.copy(f if os.path.isabs(f) else os.path.join(ctx.scratch, f), t)
        files.append(t)
    c["migrations_tried"] = c.get("migrations_tried", 0) + 1
    cfg = "mig_" + key
    codec.CONFIGS[cfg] = dict(tl2=whitelist, bytes_versions="", sanity=True)
    pa = codec.build_pkg(ctx, key + "_orig", files, cfg, must=False)
    if pa is None:
        c["original_rejected_or_not_built"] = c.get("original_rejected_or_not_built", 0) + 1
        return
    pa.schema = name
    tl2gen = gen.tool(ctx, "tl2gen")
    r = ctx.run([tl2gen, "--language=tl2migration", "--tl2WhiteList=" + whitelist] + files, cwd=d, timeout=300)
    text = r.text(200000)
    sig = {"oracle": "migration", "schema": name, "config": whitelist}
    if core.PANIC_PATTERNS.search(text) or r.rc not in (0, 1):
        ctx.violation(dict(sig, **{"class": "migration-panics"}), "tl2gen --language=tl2migration (whitelist %s) exit status %d:\n%s" % (whitelist, r.rc, text[-1500:]),
                      {os.path.basename(f): open(f).read() for f in files})
        return
    if r.rc != 0:
        c["migrations_refused"] = c.get("migrations_refused", 0) + 1
        ctx.distinct("refused/" + re.sub(r"[^a-z ]", "", text.lower())[-50:])
        return
    c["migrations_accepted"] = c.get("migrations_accepted", 0) + 1
    migrated = sorted(glob.glob(os.path.join(d, "*.tl")) + glob.glob(os.path.join(d, "*.tl2")))
    replay = {os.path.basename(f): open(f).read() for f in migrated}
    pb = codec.build_pkg(ctx, key + "_migr", migrated, cfg, must=False)
    if pb is None:
        note = ctx.notes[-1] if ctx.notes else ""
        cls = "migrated-schema-does-not-compile"
        if re.search(r"\w+Maybe has no field or method \w*TL1\w*", note):
            cls += ":tl1-method-of-migrated-Maybe"  # finding F30
        ctx.violation(dict(sig, **{"class": cls}), "migration (whitelist %s) succeeded but the migrated files are rejected by the generator or the Go code does not build: %s" % (whitelist, note[:600]), replay)
        return
    pb.schema = name
    n = 40 if thorough else 16
    for src, dst, side in ((pa, pb, "migrated"), (pb, pa, "original")):
        cases = os.path.join(ctx.work, "c27_%s_%s.cases" % (key, side))
        t, _ = codec.run_mode(ctx, src, "c27emit", env={"VERIF_VALUES": n, "VERIF_CASES_OUT": cases}, what="c27 emit (%s side checks) on %s" % (side, name))
        for k, v in t.items():
            tot[k] = tot.get(k, 0) + v
        t, _ = codec.run_mode(ctx, dst, "c27check", env={"VERIF_CASES_IN": cases, "VERIF_C27_SIDE": side}, what="c27 check by the %s package on %s [%s]" % (side, name, whitelist))
        for k, v in t.items():
            tot[k] = tot.get(k, 0) + v
    if len(ctx.cov["samples"]) < 3:
        tl2 = [f for f in migrated if f.endswith(".tl2")]
        ctx.sample({"schema": name, "whitelist": whitelist, "migrated_excerpt": open(tl2[0]).read()[:400] if tl2 else ""})


def run(ctx):
    thorough = ctx.tier == "thorough"
    ctx.make_scratch()
    c = ctx.cov.setdefault("counters", {})
    tot = {}
    jobs = [("cases", gen.REPO_SETS["cases"], "*"), ("cases:cases.", gen.REPO_SETS["cases"], "cases."), ("goldmaster", gen.REPO_SETS["goldmaster"], "*")]
    if thorough:
        jobs += [("cases:few", gen.REPO_SETS["cases"], "cases.testVector,cases.testAllDicts,benchmarks."), ("goldmaster:service1.", gen.REPO_SETS["goldmaster"], "service1.,service2."),
                 ("schema", gen.REPO_SETS["schema"], "*")]
    for i in range(12 if thorough else 3):
        s = schemagen.generate(ctx.seed, "c27/%d" % i)
        p = os.path.join(ctx.work, "rnd_c27_%d.tl" % i)
        open(p, "w").write(s.text())
        jobs.append(("random:c27/%d" % i, [p], "*"))
        # partial whitelists: types that stay TL1 keep referring to migrated ones (directly, in brackets, as arguments of templates that do not migrate)
        for ns in sorted(set(d.ns for d in s.decls)):
            if thorough or i < 2:
                jobs.append(("random:c27/%d:%s." % (i, ns), [p], ns + "."))
    # crafted reverse dependencies: a type that stays TL1 reaches a migrated one only through arguments of templates that do not migrate
    for ci, (txt, wl) in enumerate(CRAFTED):
        p = os.path.join(ctx.work, "crafted_c27_%d.tl" % ci)
        open(p, "w").write(schemagen.PRELUDE + txt)
        jobs.append(("crafted:%d" % ci, [p], wl))
    only = os.environ.get("VERIF_C27_JOBS")  # debugging aid: run the named jobs only
    if only:
        jobs = [j for j in jobs if j[0] in only.split(",")]
    for name, files, wl in jobs:
        one(ctx, name, files, wl, thorough, tot, c)
    ctx.count(tot.get("checked", 0))
    ctx.cov["rule"] = ("per (schema, whitelist): Go package A from the TL1 files with --tl2WhiteList=W; tl2gen --language=tl2migration W on copies of the files (exit status in {0,1}, "
                       "no panic); when it succeeds the migrated .tl/.tl2 files must be accepted by the generator and build (package B). Values (FillRandom + hostile "
                       "read-back) of every TL2 item of A: TL2 bytes and JSON; B must read the bytes completely, write the same bytes and the same JSON (default context, or "
                       "A's IsTL2 context - counted separately); then the same from B to A. distinct_nontrivial = distinct (item, TL2 encoding bucket) agreeing in both.")
    ctx.require("migrations accepted", c.get("migrations_accepted", 0), 2)
    ctx.require("values checked", tot.get("checked", 0), 3000)
    ctx.require("TL2 agreements", tot.get("tl2_agree", 0), 2000)
