"""C18 random value generation yields valid, reproducible values (engine A)."""
import os

from .. import codec, schemagen

# recursion through every container kind; FillRandom must terminate on all of them (depth-limited sizes)
RECURSIVE_SHAPES = schemagen.PRELUDE + """
rs.dtree v:int children:(dictionary rs.dtree) = rs.Dtree;
rs.itree v:int children:(intKeyDictionary rs.itree) = rs.Itree;
rs.vtree v:int children:(vector rs.vtree) = rs.Vtree;
rs.vmtree v:int c:(vector (Maybe rs.vmtree)) = rs.Vmtree;
rs.mutA a:int bs:(dictionary rs.mutB) = rs.MutA;
rs.mutB b:string as:(vector rs.mutA) = rs.MutB;
rs.leaf v:int = rs.Tree;
rs.node l:rs.Tree r:rs.Tree = rs.Tree;
rs.jnull = rs.Json;
rs.jnum v:double = rs.Json;
rs.jstr v:string = rs.Json;
rs.jarr v:(vector rs.Json) = rs.Json;
rs.jobj v:(dictionary rs.Json) = rs.Json;
rs.masked fm:# next:fm.0?rs.masked v:fm.1?int = rs.Masked;
rs.mvec fm:# subs:fm.2?(vector rs.mvec) name:string = rs.Mvec;
rs.pairTree p:(pair int (vector rs.pairTree)) = rs.PairTree;
---functions---
@read rs.getTree depth:int = rs.Dtree;
@read rs.getJson q:rs.Json = rs.Json;
"""

RULE = ("per item and variant: FillRandom with N fixed seeds in a journaled child (2-96 MiB stack cap, memory ulimit): returns; every writer (TL1, TL2, JSON) "
        "accepts the value without error or panic; two fresh objects filled from the same seed encode identically; filling a previously filled object gives "
        "the same value as a fresh one; FillRandomResultTL1 likewise. A child death inside FillRandom is a violation attributed through the journal. "
        "distinct_nontrivial = distinct (item, variant, value hash bucket).")


def run(ctx):
    codec.simple_check(ctx, "c18", RULE, [("types", "types", 150), ("fills", "fills", 20000), ("result fills", "result_fills", 500)], 120, 1500,
                       count_keys=("fills", "result_fills"), fill_death_is_violation=True, random_quick=3, random_thorough=30, oom_is_violation=True)
    # recursive shapes with a budget of random draws per value: a filling that does not terminate is observed as such
    path = os.path.join(ctx.work, "recursive_shapes.tl")
    open(path, "w").write(RECURSIVE_SHAPES)
    p = codec.build_pkg(ctx, "recursive_shapes", [path], "tl2all", must=True)
    t, _ = codec.run_mode(ctx, p, "c18", env={"VERIF_VALUES": 1500 if ctx.tier == "thorough" else 300, "VERIF_DRAW_CAP": 400000000}, fill_death_is_violation=True, mem_gb=8, oom_is_violation=True)
    ctx.cov["rule"] += (" Plus a fixed schema of recursive shapes (recursion through dictionary, int-key dictionary, vector, vector of Maybe, mutual recursion, unions, "
                        "masked self reference) filled from 300 (thorough 1500) seeds per item with a counting random source: FillRandom may nest at most 700 call frames (a few dozen on a tree "
                        "that limits depth) and one value may draw at most 4*10^8 random numbers; the largest nesting and number of draws seen are reported.")
    ctx.require("fills of recursive shapes", t.get("fills", 0), 3000)
    # the fixed schema of rarely reached shapes (mask bit 31, flags in the second mask block, flags-only objects)
    fpath = os.path.join(ctx.work, "fixed_shapes.tl")
    open(fpath, "w").write(schemagen.fixed_shapes().text())
    fp = codec.build_pkg(ctx, "fixed_shapes", [fpath], "tl2all", must=True)
    codec.run_mode(ctx, fp, "c18", env={"VERIF_VALUES": 300 if ctx.tier == "thorough" else 60}, fill_death_is_violation=True, oom_is_violation=True)
