"""Running the current generators inside the scratch copy."""
import os

from . import core

VGEN = "internal/vgen"


def tool(ctx, name):
    """build cmd/<name> of the scratch copy once"""
    b = os.path.join(ctx.work, "bin", name)
    if not os.path.exists(b):
        os.makedirs(os.path.dirname(b), exist_ok=True)
        r = ctx.run(["go", "build", "-trimpath", "-o", b, "./cmd/" + name], cwd=ctx.scratch, timeout=900)
        ctx.need(r, "building cmd/" + name)
    return b


def go_opts(tl2="*", split=False, bytes_versions="", sanity=True, random=True, rpc=False, basic=True, extra=()):
    o = ["--language=go"]
    if tl2:
        o.append("--tl2WhiteList=" + tl2)
    if split:
        o.append("--split-internal")
    if bytes_versions:
        o.append("--generateByteVersions=" + bytes_versions)
    o.append("--checkLengthSanity=" + ("true" if sanity else "false"))
    if random:
        o.append("--generateRandomCode")
    if rpc:
        o.append("--generateRPCCode")
    if basic:
        o.append("--basicPkgPath=%s/pkg/basictl" % core.MODULE)
        o.append("--basicRPCPath=%s/pkg/rpc" % core.MODULE)
    else:
        o.append("--basicPkgPath=")
    o += list(extra)
    return o


def gen_go(ctx, name, schemas, opts, timeout=300):
    """run tl2gen --language=go into <scratch>/internal/vgen/<name>; returns (RunResult, outdir_rel, import_base)"""
    t = tool(ctx, "tl2gen")
    out_rel = os.path.join(VGEN, name)
    out = os.path.join(ctx.scratch, out_rel)
    os.makedirs(out, exist_ok=True)
    cmd = [t] + list(opts) + ["--outdir=" + out, "--pkgPath=%s/%s/tl" % (core.MODULE, out_rel), "--schemaTimestamp=1700000000"] + list(schemas)
    r = ctx.run(cmd, cwd=ctx.scratch, timeout=timeout)
    return r, out_rel, "%s/%s" % (core.MODULE, out_rel)


def repo_schema(ctx, rel):
    return os.path.join(ctx.scratch, rel)


TLS = "internal/tlcodegen/test/tls/"
REPO_SETS = {
    "cases": [TLS + "cases.tl"],
    "casestl2": [TLS + "cases.tl2"],
    "goldmaster": [TLS + "goldmaster.tl", TLS + "goldmaster2.tl", TLS + "goldmaster3.tl"],
    "schema": [TLS + "schema.tl"],
}
