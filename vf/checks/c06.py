"""C06 JSON reader accepts documented alternative forms and rejects invalid ones (engine A, schema-free part)."""
from .. import codec, jsoncheck

RULE = ("schema-free part on packages generated from the repository schemas: for canonical documents of FillRandom / hostile values: every number rewritten "
        "as a decimal string and insignificant whitespace inserted => accepted with identical TL1/TL2/JSON; duplicate key and unknown key in the top-level "
        "struct object => rejected. (Alternative forms that need the schema - omitted empties, enum/union spellings, Maybe forms, mask inference, array length "
        "vs size - are exercised by the reference-model engine when available.) distinct_nontrivial = distinct (item, form).")


def run(ctx):
    codec.simple_check(ctx, "c06", RULE, [("types", "types", 150), ("documents", "documents", 4000), ("numbers-as-strings documents", "alt_numbers_as_strings", 2000),
                                          ("duplicate-key documents", "reject_duplicate-key", 1500), ("unknown-key documents", "reject_unknown-key", 1500)],
                       40, 300, count_keys=("documents",), random_quick=2, random_thorough=20)
    thorough = ctx.tier == "thorough"
    tot = {}
    for config in ("tl2all", "tl1only"):
        jsoncheck.run_schema(ctx, -1, config, 200 if thorough else 60, tot)  # fixed schema of mask / Maybe / enum / sized shapes
    for i in range(16 if thorough else 2):
        for config in (("tl2all", "tl1only") if (thorough or i == 0) else ("tl2all",)):
            jsoncheck.run_schema(ctx, i, config, 12 if thorough else 6, tot)
    ctx.cov.setdefault("counters", {}).update({"schema_aware_" + k: v for k, v in tot.items()})
    ctx.cov["rule"] += (" Schema-aware part on random SchemaGen schemas (with and without TL2): canonical documents written by generated code are walked alongside the schema and rewritten "
                        "into forms the mapping calls equal (omitted empty field given explicitly, local field mask left out when the present fields imply it - one mask or the "
                        "whole chain, enum as {type}, empty union constructor as type string, Maybe without ok, empty Maybe as ok:false, nested numbers as strings) => accepted "
                        "and equal TL1 bytes; and into invalid ones (unknown / duplicate key in nested objects, array longer/shorter than an explicit or constant size, Maybe with "
                        "ok:false plus value in both key orders, without TL2: true field given as false with its mask bit set) => rejected.")
    ctx.require("schema-aware documents", tot.get("documents", 0), 100)
    ctx.require("schema-aware forms", tot.get("forms", 0), 600)
