"""Schema-aware alternative JSON forms (C06): walks a canonical JSON document written by generated code alongside the SchemaGen AST
and produces documents that the TL JSON mapping says are the same value ("same") or invalid ("reject").

Only positions whose shape is unambiguous are rewritten; anything unexpected is left alone (the walker never guesses)."""
import json


class Obj(list):
    """JSON object as an ordered list of [key, value] (keeps order and duplicates)"""

    def get(self, k, default=None):
        for kk, v in self:
            if kk == k:
                return v
        return default

    def has(self, k):
        return any(kk == k for kk, _ in self)

    def without(self, k):
        return Obj([[kk, v] for kk, v in self if kk != k])

    def replaced(self, k, nv):
        return Obj([[kk, (nv if kk == k else v)] for kk, v in self])


class Num(str):
    """number token kept verbatim"""


def loads(text):
    return json.loads(text, object_pairs_hook=lambda p: Obj([list(x) for x in p]), parse_float=Num, parse_int=Num)


def dumps(j):
    if isinstance(j, Obj):
        return "{" + ",".join(json.dumps(k) + ":" + dumps(v) for k, v in j) + "}"
    if isinstance(j, list):
        return "[" + ",".join(dumps(v) for v in j) + "]"
    if isinstance(j, Num):
        return str(j)
    if isinstance(j, str):
        return json.dumps(j)
    if j is True:
        return "true"
    if j is False:
        return "false"
    if j is None:
        return "null"
    raise ValueError(type(j))


def empty_of(t):
    """canonical empty JSON value of a type where that is unambiguous, else None"""
    k = t.kind
    if k in ("prim", "boxedprim"):
        return "" if t.name.lower() == "string" else Num("0")
    if k == "nat":
        return Num("0")
    if k == "bool":
        return False
    if k == "vector":
        return []
    if k == "maybe":
        return Obj()
    return None


class Walker:
    def __init__(self, r, tl2):
        self.r = r
        self.tl2 = tl2  # package generated with TL2 (true-as-false rejection is only promised without it)
        self.count = {}

    def note(self, label):
        self.count[label] = self.count.get(label, 0) + 1

    # ---- alternatives of one value: list of (label, expect, new json)
    def alts(self, t, j, depth=0):
        out = []
        k = t.kind
        if depth > 6:
            return out
        if k in ("prim", "boxedprim", "nat"):
            if isinstance(j, Num) and (k == "nat" or t.name.lower() in ("int", "long")):
                out.append(("nested-number-as-string", "same", str(j)))
            return out
        if k in ("vector", "tuple"):
            if not isinstance(j, list):
                return out
            if k == "tuple" and t.size.kind == "const" and len(j) == t.size.val:
                if j:
                    out.append(("constant-size-array-one-more", "reject", j + [j[-1]]))
                    out.append(("constant-size-array-one-fewer", "reject", j[:-1]))
            for i in self.pick_idx(len(j), 2):
                for lab, exp, nv in self.alts(t.elem, j[i], depth + 1):
                    out.append((lab, exp, j[:i] + [nv] + j[i + 1:]))
            return out
        if k == "maybe":
            if not isinstance(j, Obj):
                return out
            if j.has("ok") and j.has("value") and j.get("ok") is True:
                out.append(("maybe-without-ok", "same", j.without("ok")))
                out.append(("maybe-ok-false-with-value", "reject", Obj([["ok", False], ["value", j.get("value")]])))
                out.append(("maybe-value-then-ok-false", "reject", Obj([["value", j.get("value")], ["ok", False]])))
                for lab, exp, nv in self.alts(t.elem, j.get("value"), depth + 1):
                    out.append((lab, exp, j.replaced("value", nv)))
            elif len(j) == 0:
                out.append(("maybe-empty-as-ok-false", "same", Obj([["ok", False]])))
            return out
        if k == "dict":
            if isinstance(j, Obj) and j:
                i = self.r.below(len(j))
                for lab, exp, nv in self.alts(t.elem, j[i][1], depth + 1):
                    out.append((lab, exp, Obj([[kk, (nv if n == i else v)] for n, (kk, v) in enumerate(j)])))
            return out
        if k == "pair":
            if isinstance(j, Obj):
                return self.struct_alts([_F("a", t.a), _F("b", t.b)], j, depth)
            return out
        if k == "ref":
            d = t.decl
            if d.kind == "typedef":
                return self.alts(d.inner, j, depth + 1)
            if d.kind == "enum":
                if isinstance(j, str) and any(c.lname == j for c in d.constructors):
                    out.append(("enum-as-object", "same", Obj([["type", j]])))
                return out
            if d.kind == "union":
                if not isinstance(j, Obj) or not isinstance(j.get("type"), str):
                    return out
                cs = [c for c in d.constructors if c.lname == j.get("type")]
                if not cs:
                    return out
                c = cs[0]
                if not c.fields and not j.has("value") and len(j) == 1:
                    out.append(("union-as-type-string", "same", j.get("type")))
                if j.has("value") and isinstance(j.get("value"), Obj):
                    for lab, exp, nv in self.struct_alts(c.fields, j.get("value"), depth + 1):
                        out.append((lab, exp, j.replaced("value", nv)))
                return out
            if d.kind == "struct":
                if isinstance(j, Obj):
                    return self.struct_alts(d.constructors[0].fields, j, depth)
                return out
        return out

    def pick_idx(self, n, m):
        if n <= m:
            return list(range(n))
        a = self.r.below(n)
        b = self.r.below(n)
        return sorted(set([a, b]))

    def struct_alts(self, fields, obj, depth):
        out = []
        names = [f.name for f in fields]
        if len(set(k for k, _ in obj)) != len(obj) or any(k not in names for k, _ in obj):
            return out  # not the shape expected for this struct: leave alone
        present = {k: v for k, v in obj}
        pos = self.r.below(len(obj) + 1)
        out.append(("unknown-key-nested", "reject", Obj(obj[:pos] + [["zz_unknown_key", Num("0")]] + obj[pos:])))
        if obj:
            i = self.r.below(len(obj))
            out.append(("duplicate-key-nested", "reject", Obj(obj[:] + [list(obj[i])])))
        byname = {f.name: f for f in fields}
        # explicit empties of omitted, unmasked fields
        for f in fields:
            if f.name in present or f.mask or getattr(f, "anon", False):
                continue
            e = [] if f.arr is not None else empty_of(f.typ)
            if e is None:
                continue
            if f.arr is not None and not (f.arr.kind == "const" and f.arr.val == 0) and not (f.arr.kind == "field" and f.arr.val not in present):
                continue  # an omitted counted array is only certainly empty when its size is 0
            if f.typ.kind == "nat" and any(g.arr is not None and g.arr.kind == "field" and g.arr.val == f.name and g.name in present for g in fields):
                continue
            idx = names.index(f.name)
            npos = sum(1 for k, _ in obj if names.index(k) < idx)
            out.append(("omitted-empty-field-given-explicitly", "same", Obj(obj[:npos] + [[f.name, e]] + obj[npos:])))
        # field masks implied by the fields they guard
        implied = {}
        for f in fields:
            if f.mask and f.mask[0].kind == "field" and f.name in present:
                implied[f.mask[0].val] = implied.get(f.mask[0].val, 0) | (1 << f.mask[1])
        removable = []
        for m, bits in implied.items():
            v = present.get(m)
            if isinstance(v, Num) and str(v).isdigit() and int(v) == bits and bits != 0 and byname[m].typ.kind == "nat":
                removable.append(m)
        for m in removable:
            out.append(("field-mask-implied-by-present-fields", "same", obj.without(m)))
        if len(removable) > 1:
            o2 = obj
            for m in removable:
                o2 = o2.without(m)
            out.append(("all-field-masks-implied", "same", o2))
        # array length against an explicitly given size parameter
        for f in fields:
            if f.name not in present or not isinstance(present[f.name], list):
                continue
            size = f.arr if f.arr is not None else (f.typ.size if f.typ.kind == "tuple" else None)
            if size is None:
                continue
            arr = present[f.name]
            if (size.kind == "field" and size.val in present and isinstance(present[size.val], Num)) or size.kind == "const":
                if arr:
                    out.append(("array-longer-than-size-parameter", "reject", obj.replaced(f.name, arr + [arr[-1]])))
                    out.append(("array-shorter-than-size-parameter", "reject", obj.replaced(f.name, arr[:-1])))
        # true-typed field given as false while its mask bit is set
        if not self.tl2:
            for f in fields:
                if f.typ.kind == "true" and f.mask and f.mask[0].kind == "field" and present.get(f.name) is True:
                    if f.mask[0].val in present:
                        out.append(("true-field-false-with-mask-bit-set", "reject", obj.replaced(f.name, False)))
                        if f.mask[0].val in removable and any(g is not f and g.mask and g.mask[0].kind == "field" and g.mask[0].val == f.mask[0].val and g.mask[1] == f.mask[1] and g.name in present for g in fields):
                            # the mask itself is left out (it is implied): the bit is still set through a sibling field guarded by the same bit
                            out.append(("true-field-false-with-mask-bit-implied-by-sibling", "reject", obj.without(f.mask[0].val).replaced(f.name, False)))
        # descend
        keys = [k for k, _ in obj]
        for k in ([keys[i] for i in self.pick_idx(len(keys), 3)] if keys else []):
            f = byname[k]
            if f.arr is not None or getattr(f, "anon", False):
                v = present[k]
                et = f.typ.elem if getattr(f, "anon", False) else f.typ
                if isinstance(v, list):
                    for i in self.pick_idx(len(v), 1):
                        for lab, exp, nv in self.alts(et, v[i], depth + 1):
                            out.append((lab, exp, obj.replaced(k, v[:i] + [nv] + v[i + 1:])))
                continue
            for lab, exp, nv in self.alts(f.typ, present[k], depth + 1):
                out.append((lab, exp, obj.replaced(k, nv)))
        return out


class _F:
    def __init__(self, name, typ):
        self.name, self.typ, self.mask, self.arr, self.anon = name, typ, None, None, False


def alternatives(decl_or_fn, j, r, tl2, limit=10):
    """alternative documents of the canonical document j of an item"""
    w = Walker(r, tl2)
    from . import schemagen
    if isinstance(decl_or_fn, schemagen.Function):
        alts = w.struct_alts(decl_or_fn.fields, j, 0) if isinstance(j, Obj) else []
    else:
        t = schemagen.T("ref", decl=decl_or_fn, bare=True, pct=False, args=[])
        alts = w.alts(t, j, 0)
    # keep one of each label first, then fill up
    seen, first, rest = set(), [], []
    for a in alts:
        (first if a[0] not in seen else rest).append(a)
        seen.add(a[0])
    while len(first) < limit and rest:
        first.append(rest.pop(r.below(len(rest))))
    return first[:max(limit, len(seen))]
