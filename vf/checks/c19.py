"""C19 TL1 parser is total with in-range error positions (engine D, in-package monitor)."""
from .. import inpkg

TL2 = False
TEST = "^TestVerifC19$"


def run(ctx, tl2=TL2, test=TEST):
    n = 150000 if ctx.tier == "quick" else 4000000
    ctx.cov["rule"] = ("inputs = mutated 600-byte windows of every repository schema, generated combinators (own syntactic generator, "
                       "random layout) with and without mutation, token soups from the lexer alphabet, random bytes, pathological nesting, "
                       "whole files and whole-file mutants; all LexerOptions combinations. Oracles: no panic in Parse*/ConsolePrint/PrintWarning; "
                       "ParseError Begin/End/Outer offsets inside [0,len], Begin<=End, positions refer to the parsed text, line/column/line-start "
                       "recomputed independently from the text agree (inputs without \\r), printed message never says 'context corrupted'. "
                       "distinct_nontrivial = distinct (error message class, kind of character at the error) pairs + accepted.")
    shards = 1 if ctx.tier == "quick" else 8
    tot = {}
    for sh in range(shards):
        r, ev = inpkg.run_inpkg(ctx, "inpkg/tlast", "internal/tlast", test, env={"VERIF_N": n // shards, "VERIF_SEED": ctx.seed * 100 + sh},
                                timeout=1500)
        sm = inpkg.absorb(ctx, r, ev, "parser totality")
        t = inpkg.merge_counters(ctx, sm)
        for k, v in t.items():
            tot[k] = tot.get(k, 0) + v
    ctx.count(tot.get("inputs", 0))
    ctx.require("inputs", tot.get("inputs", 0), n // 2)
    ctx.require("rejected inputs with a position", tot.get("rejected_with_position", 0), 1000)
    ctx.require("accepted inputs", tot.get("accepted", 0), 100)
    ctx.require("errors printed", tot.get("printed", 0), 1000)
