"""C30 linter rejects documented unsafe schema evolutions (engine E)."""
import copy

from .. import core, linter, schemagen


def run(ctx):
    thorough = ctx.tier == "thorough"
    ctx.make_scratch()
    n = 6000 if thorough else 600
    r = core.stream(ctx.seed, "c30")
    pairs, meta = [], []
    tries = 0
    while len(pairs) < n and tries < n * 4:
        tries += 1
        s = linter.small_schema(ctx.seed, "c30/%d" % (tries // 8))
        s2 = copy.deepcopy(s)
        res = linter.UNSAFE[tries % len(linter.UNSAFE)](s2, r)
        if not res:
            continue
        pairs.append((s.text(), s2.text()))
        meta.append(res)
    # fixed family: mutual recursion through templates that forward one external mask (names, bits, declaration order vary)
    for i in range(120 if thorough else 24):
        s, s2, res = linter.recursion_family(r)
        pairs.append((schemagen.PRELUDE + "\n" + "\n".join(d.text() for d in s.decls) + "\n", schemagen.PRELUDE + "\n" + "\n".join(d.text() for d in s2.decls) + "\n"))
        meta.append(res)
    verdicts = linter.run_linter(ctx, pairs)
    rej = 0
    matrix = {}
    for (old, new), (kind, pos), (v, msg) in zip(pairs, meta, verdicts):
        ctx.count()
        matrix["%s @ %s" % (kind, pos)] = matrix.get("%s @ %s" % (kind, pos), 0) + 1
        ctx.distinct("%s/%s" % (kind, pos))
        if v == "REJECT":
            rej += 1
            continue
        if v.startswith("PARSE"):
            ctx.inconc("edited schema does not parse (%s): %s" % (kind, msg[:100]))
            continue
        cls = "%s@%s" % (kind, pos)
        ctx.violation({"oracle": "linter-rejects-unsafe", "class": cls, "verdict": v},
                      "linter verdict %s for the unsafe edit '%s' at position class '%s': %s" % (v, kind, pos, msg), {"old.tl": old, "new.tl": new})
    ctx.cov.setdefault("counters", {})["edit_matrix"] = matrix
    ctx.sample({"edit": meta[0], "verdict": verdicts[0]})
    ctx.cov["rule"] = ("pairs (old SchemaGen schema, new = old after exactly one unsafe edit applied on the AST at a recorded position class): remove a constructor / function / "
                       "field (last or middle) / template argument (with all uses updated), change a primitive type (top-level field, inside '[...]' repetitions, in a type "
                       "argument, in a non-first type argument, at depth >= 2, in a function argument or result), change the mask bit or the mask reference, add or remove a "
                       "mask, append an unmasked field, append a field reusing a mask bit (also a bit that the other type of a mutually recursive, mask-forwarding pair of templates uses), move a mask or size reference "
                       "between a template argument and a field, turn a struct that is referenced bare into a union. The real "
                       "CheckBackwardCompatibility(new, old) must reject (a panic is a failure to reject). Evidence carries the (edit kind x position class) matrix. "
                       "distinct_nontrivial = distinct (edit kind, position class).")
    ctx.require("pairs", len(pairs), n * 8 // 10)
    ctx.require("rejected", rej, n // 2)
