"""C39 RPC server enforces worker and memory limits (engine G, -race)."""
from .. import inpkg


def run(ctx):
    thorough = ctx.tier == "thorough"
    ctx.cov["rule"] = ("rounds with ServerWithMaxWorkers(W in 1..5), ServerWithRequestMemoryLimit(floor 16 MiB) and ServerWithRequestBufSize(4 MiB) so that <= 4 "
                       "requests fit; 8-27 concurrent calls from 2-6 clients; handlers count concurrency (atomic high-water mark) and block on a gate. Monitors: "
                       "high-water <= W; a sampler goroutine and every handler read Server.RequestsMemory(): cur <= limit always; no call completes while all "
                       "handlers are blocked; no call is rejected; after the gate opens every call completes (excess load waited) and the accounted memory "
                       "returns to 0. The harness's own account (requests inside handlers x max(body, RequestBufSize)) must stay within the limit too. Scenarios: a bare packet "
                       "connection with two requests in handlers announces a third, larger one that waits for memory, goes away, its handlers finish one after the other, new load "
                       "arrives; a server whose workers are left idle beyond the pool's 60 s collection time while the other rounds run and is saturated again at the end. "
                       "-race build. distinct_nontrivial = distinct (W, clients, calls).")
    env = {"VERIF_N": 60 if thorough else 6}
    tot = {}
    for gmp in ([16] if not thorough else [2, 16]):
        r, ev = inpkg.run_inpkg(ctx, "rpcmon", "pkg/rpc/vmon", "^TestVerifC39$", env=env, race=True, timeout=3400, gomaxprocs=gmp)
        sm = inpkg.absorb(ctx, r, ev, "rpc server limits")
        t = inpkg.merge_counters(ctx, sm)
        for k, v in t.items():
            tot[k] = tot.get(k, 0) + v
        for key, block in inpkg.race_reports(r):
            ctx.violation({"oracle": "race-detector", "class": key}, "data race reported in the server-limits workload:\n" + block, {"race.txt": block})
    ctx.count(tot.get("calls", 0))
    ctx.require("rounds", tot.get("rounds", 0), env["VERIF_N"])
    ctx.require("memory samples", tot.get("memory_samples", 0), 1000)
