"""Shared driver for the schema-level outputs of tl2gen: canonical listing (C25), TLO (C26)."""
import json
import os

from . import core, gen, inpkg, schemagen


CRAFTED = """
tree.string x:string = tree.String;
tree.int v:int kids:(vector tree.int) = tree.Int;
json.null = json.Value;
json.double value:double = json.Value;
json.long value:long = json.Value;
json.string value:string = json.Value;
json.float value:float = json.Value;
b.pair#0badf00d x:int y:int = b.Pair;
b.one#0badf00e = b.Either;
b.two#0badf00f p:b.pair = b.Either;
m.masked n:# ns:# c:n.2?3*[int] d:n.3?ns*[long] e:n.4?(vector string) f:n.5?(tuple int ns) = m.Masked;
engine.query {X:Type} query:!X = engine.Query;
engine.queryShortened query:%(VectorTotal int) = engine.Query;
vectorTotal {t:Type} total_count:int vector:%(Vector t) = VectorTotal t;
---functions---
@any rpcDestActor#7568aabd {X:Type} actor_id:long query:!X = X;
@any rpcDestFlags#e352035e {X:Type} flags:int query:!X = X;
@read tree.get s:tree.string = json.Value;
@read b.get#0badf010 e:b.Either = b.Pair;
"""


def prepare(ctx, want_canonical, want_tlo, nrandom, label):
    tl2gen = gen.tool(ctx, "tl2gen")
    cdir = os.path.join(ctx.work, "cases_" + label)
    os.makedirs(cdir, exist_ok=True)
    sets = []
    for nm in ("cases", "goldmaster", "schema"):
        sets.append((nm, [os.path.join(ctx.scratch, f) for f in gen.REPO_SETS[nm]]))
    for extra in ("pkg/rpc/rpc.tl", "cmd/tl2client/test.tl"):
        p = os.path.join(ctx.scratch, extra)
        if os.path.exists(p):
            sets.append((os.path.basename(extra).replace(".", "_"), [p]))
    # crafted: names and declaration shapes that neither the repository schemas nor SchemaGen contain
    p = os.path.join(cdir, "crafted.tl")
    open(p, "w").write(schemagen.PRELUDE + CRAFTED)
    sets.append(("crafted", [p]))
    for i in range(nrandom):
        s = schemagen.generate(ctx.seed, "%s/%d" % (label, i))
        p = os.path.join(cdir, "rnd%d.tl" % i)
        open(p, "w").write(s.text())
        sets.append(("random%d" % i, [p]))
    r = core.stream(ctx.seed, label + "/ts")
    n = 0
    for idx, (nm, files) in enumerate(sets):
        ts = r.pick([1, 2 ** 31 - 1, 2 ** 32 - 1, 1700000000, (r.next() & 0xffffffff) or 1])
        case = {"name": nm, "inputs": files, "canonical": "", "tlo": "", "timestamp": ts}
        okc = True
        if want_canonical:
            out = os.path.join(cdir, nm + ".canonical")
            rr = ctx.run([tl2gen, "--language=canonical", "--outfile=" + out, "--schemaTimestamp=%d" % ts] + files, cwd=ctx.scratch, timeout=300)
            if rr.rc == 0:
                case["canonical"] = out
            else:
                okc = False
        if want_tlo:
            out = os.path.join(cdir, nm + ".tlo")
            rr = ctx.run([tl2gen, "--language=tlo", "--outfile=" + out, "--schemaTimestamp=%d" % ts] + files, cwd=ctx.scratch, timeout=300)
            if rr.rc == 0:
                case["tlo"] = out
            else:
                okc = False
        if not okc:
            ctx.note("schema set %s not accepted for this output kind: %s" % (nm, rr.tail(200).replace("\n", " ")))
            continue
        json.dump(case, open(os.path.join(cdir, "%03d.case.json" % idx), "w"))
        n += 1
        ctx.count()
    return cdir, n


def run(ctx, want_canonical, want_tlo, nrandom, label):
    ctx.make_scratch()
    cdir, n = prepare(ctx, want_canonical, want_tlo, nrandom, label)
    r, ev = inpkg.run_inpkg(ctx, "vtlo", "internal/tlast/vtlo", "^TestVerifSchemaOutputs$", env={"VERIF_CASES_DIR": cdir}, timeout=1200)
    sm = inpkg.absorb(ctx, r, ev, "schema outputs")
    t = inpkg.merge_counters(ctx, sm)
    for e in ev:
        if e.get("t") == "tlo":
            ctx.sample(e)
    return t, n
