"""C37 UDP acknowledgement bookkeeping is exact (engine H, in-package model monitor)."""
from .. import inpkg


def run(ctx):
    thorough = ctx.tier == "thorough"
    ctx.cov["rule"] = ("all sequences of <= 3 (thorough: 4) ranges over the domain 0..9 (55 ranges) enumerated completely, plus N random histories of up to "
                       "14 ranges on domains up to 600; after every AddAckRange: set of the structure == set model; prefix + strictly increasing, disjoint, "
                       "non-adjacent, non-inverted ranges; BuildAck header (prefix, range, set) acknowledges only recorded numbers and carries the prefix/"
                       "first range when they exist; BuildNegativeAck ranges are non-inverted and request no recorded number. distinct_nontrivial = distinct random histories.")
    env = {"VERIF_N": 400000 if thorough else 20000, "VERIF_EXLEN": 4 if thorough else 3}
    r, ev = inpkg.run_inpkg(ctx, "inpkg/udp", "pkg/rpc/udp", "^TestVerifC37$", env=env, timeout=3000)
    sm = inpkg.absorb(ctx, r, ev, "ack bookkeeping")
    t = inpkg.merge_counters(ctx, sm)
    ctx.cov["exhaustive"] = True
    ctx.count(t.get("exhaustive_histories", 0) + t.get("random_histories", 0))
    ctx.require("exhaustive histories", t.get("exhaustive_histories", 0), 55 ** env["VERIF_EXLEN"])
    ctx.require("random histories", t.get("random_histories", 0), env["VERIF_N"] * 9 // 10)
