//go:build verif

// In-package monitors for the weighted semaphore (C42).
//  (a) deterministic histories (exhaustive short ones + random long ones) against a small model,
//      with blocked waiters as first-class citizens, and an invariant walker under s.mu after every step;
//  (b) concurrent histories (run under -race) recorded at the call boundary and checked with porcupine
//      for "no over-admission", plus the lost-wakeup invariant at quiescence.
package semaphore

import (
	"context"
	"encoding/json"
	"fmt"
	"math"
	"math/rand"
	"os"
	"runtime"
	"strconv"
	"sync"
	"sync/atomic"
	"testing"
	"time"

	"github.com/anishathalye/porcupine"
)

func vEnvInt(name string, def int) int {
	if s := os.Getenv(name); s != "" {
		if v, err := strconv.Atoi(s); err == nil {
			return v
		}
	}
	return def
}

func vEmit(v map[string]any) {
	b, _ := json.Marshal(v)
	fmt.Printf("@@%s\n", b)
}

type vStats struct {
	counters map[string]int
	distinct map[string]bool
	samples  []any
	viol     int
}

func (s *vStats) violation(oracle, class, desc string, input any) {
	s.viol++
	if s.viol > 20 {
		return
	}
	b, _ := json.Marshal(input)
	vEmit(map[string]any{"t": "violation", "oracle": oracle, "class": class, "desc": desc, "input": string(b)})
}

func (s *vStats) done(name string) {
	vEmit(map[string]any{"t": "summary", "name": name, "counters": s.counters, "distinct": len(s.distinct), "samples": s.samples, "violations": s.viol})
}

// ---------------------------------------------------------------- (a) deterministic histories

type vOp struct {
	K string `json:"k"` // try, acq (blocking, background ctx), acqc (already cancelled ctx), cancel, rel, force, size
	N int64  `json:"n"`
}

type vWaiter struct {
	n      int64
	cancel context.CancelFunc
	done   chan error
}

type vModel struct {
	cur, size int64
	queue     []*vWaiter
}

func (m *vModel) notify() (admitted []*vWaiter) {
	for len(m.queue) > 0 && m.size-m.cur >= m.queue[0].n {
		m.cur += m.queue[0].n
		admitted = append(admitted, m.queue[0])
		m.queue = m.queue[1:]
	}
	return
}

// waits until the semaphore's waiter list has the expected length (the spawned Acquire passed its decision point)
func vWaitQueued(s *Weighted, want int) bool {
	for i := 0; i < 2000000; i++ {
		s.mu.Lock()
		l := s.waiters.Len()
		s.mu.Unlock()
		if l == want {
			return true
		}
		runtime.Gosched()
		if i > 1000 {
			time.Sleep(time.Microsecond)
		}
	}
	return false
}

func vWaitDone(w *vWaiter) (error, bool) {
	select {
	case err := <-w.done:
		return err, true
	case <-time.After(10 * time.Second):
		return nil, false
	}
}

func vStillBlocked(w *vWaiter) bool {
	for i := 0; i < 3; i++ {
		runtime.Gosched()
	}
	select {
	case <-w.done:
		return false
	default:
		return true
	}
}

// invariant walker, under the semaphore's own lock
func vWalk(s *Weighted, m *vModel) string {
	s.mu.Lock()
	defer s.mu.Unlock()
	if s.cur != m.cur || s.size != m.size {
		return fmt.Sprintf("state cur=%d size=%d, model cur=%d size=%d", s.cur, s.size, m.cur, m.size)
	}
	if s.waiters.Len() != len(m.queue) {
		return fmt.Sprintf("%d waiters queued, model has %d", s.waiters.Len(), len(m.queue))
	}
	i := 0
	for e := s.waiters.Front(); e != nil; e = e.Next() {
		if e.Value.(waiter).n != m.queue[i].n {
			return fmt.Sprintf("waiter %d has weight %d, model %d", i, e.Value.(waiter).n, m.queue[i].n)
		}
		i++
	}
	if f := s.waiters.Front(); f != nil && s.size-s.cur >= f.Value.(waiter).n {
		return fmt.Sprintf("lost wakeup: first waiter (weight %d) fits (cur=%d size=%d) but is still queued", f.Value.(waiter).n, s.cur, s.size)
	}
	return ""
}

// runs one history; returns "" or a description of the violation. Ops that are not applicable in the current
// model state (release of more than held, cancel without waiters, blocking acquire that can never fit) are skipped.
func vRunHistory(init int64, ops []vOp) (viol string, applied int) {
	s := NewWeighted(init)
	m := &vModel{size: init}
	var all []*vWaiter
	defer func() {
		for _, w := range all {
			w.cancel()
		}
	}()
	for i, op := range ops {
		var admitted []*vWaiter
		switch op.K {
		case "try":
			want := m.size-m.cur >= op.N && len(m.queue) == 0
			got := s.TryAcquire(op.N)
			if got != want {
				return fmt.Sprintf("step %d TryAcquire(%d) = %v, model says %v (cur=%d size=%d waiters=%d)", i, op.N, got, want, m.cur, m.size, len(m.queue)), applied
			}
			if want {
				m.cur += op.N
			}
		case "acqc":
			ctx, cancel := context.WithCancel(context.Background())
			cancel()
			want := m.size-m.cur >= op.N && len(m.queue) == 0
			err := s.Acquire(ctx, op.N)
			if (err == nil) != want {
				return fmt.Sprintf("step %d Acquire(cancelled ctx, %d) err=%v, model says success=%v (cur=%d size=%d waiters=%d)", i, op.N, err, want, m.cur, m.size, len(m.queue)), applied
			}
			if want {
				m.cur += op.N
			}
		case "acq":
			if m.size-m.cur >= op.N && len(m.queue) == 0 {
				if err := s.Acquire(context.Background(), op.N); err != nil {
					return fmt.Sprintf("step %d Acquire(%d) with free capacity returned %v", i, op.N, err), applied
				}
				m.cur += op.N
				break
			}
			if op.N > m.size {
				continue // would block until cancelled without queueing: not observable deterministically
			}
			ctx, cancel := context.WithCancel(context.Background())
			w := &vWaiter{n: op.N, cancel: cancel, done: make(chan error, 1)}
			all = append(all, w)
			go func() { w.done <- s.Acquire(ctx, w.n) }()
			m.queue = append(m.queue, w)
			if !vWaitQueued(s, len(m.queue)) {
				return fmt.Sprintf("step %d Acquire(%d) neither returned nor queued (cur=%d size=%d)", i, op.N, m.cur, m.size), applied
			}
		case "cancel":
			if len(m.queue) == 0 {
				continue
			}
			idx := int(op.N) % len(m.queue)
			w := m.queue[idx]
			w.cancel()
			err, ok := vWaitDone(w)
			if !ok {
				return fmt.Sprintf("step %d cancelled waiter (weight %d) did not return", i, w.n), applied
			}
			if err == nil {
				return fmt.Sprintf("step %d cancelled waiter (weight %d) that does not fit returned success (cur=%d size=%d)", i, w.n, m.cur, m.size), applied
			}
			m.queue = append(append([]*vWaiter{}, m.queue[:idx]...), m.queue[idx+1:]...)
			if idx == 0 {
				admitted = m.notify()
			}
		case "rel":
			if op.N > m.cur {
				continue
			}
			s.Release(op.N)
			m.cur -= op.N
			admitted = m.notify()
		case "force":
			if m.cur > math.MaxInt64-op.N {
				continue
			}
			s.ForceAcquire(op.N)
			m.cur += op.N
		case "size":
			s.SetSize(op.N)
			m.size = op.N
			admitted = m.notify()
		}
		applied++
		for _, w := range admitted {
			err, ok := vWaitDone(w)
			if !ok {
				return fmt.Sprintf("step %d (%s %d): waiter of weight %d fits (model cur=%d size=%d) but was not admitted within 10s: lost wakeup", i, op.K, op.N, w.n, m.cur, m.size), applied
			}
			if err != nil {
				return fmt.Sprintf("step %d (%s %d): admitted waiter of weight %d returned %v", i, op.K, op.N, w.n, err), applied
			}
		}
		for _, w := range m.queue {
			if !vStillBlocked(w) {
				return fmt.Sprintf("step %d (%s %d): waiter of weight %d returned although it does not fit or is not first (model cur=%d size=%d): over-admission", i, op.K, op.N, w.n, m.cur, m.size), applied
			}
		}
		if v := vWalk(s, m); v != "" {
			return fmt.Sprintf("step %d (%s %d): %s", i, op.K, op.N, v), applied
		}
		if c, sz := s.Observe(); c != m.cur || sz != m.size {
			return fmt.Sprintf("step %d Observe() = (%d,%d), model (%d,%d)", i, c, sz, m.cur, m.size), applied
		}
	}
	return "", applied
}

func TestVerifC42Seq(t *testing.T) {
	seed := int64(vEnvInt("VERIF_SEED", 1))
	exLen := vEnvInt("VERIF_EXLEN", 4)
	n := vEnvInt("VERIF_N", 3000)
	r := rand.New(rand.NewSource(seed*8191 + 42))
	st := &vStats{counters: map[string]int{}, distinct: map[string]bool{}}
	var alphabet []vOp
	for _, k := range []string{"try", "acq", "rel"} {
		for w := int64(1); w <= 3; w++ {
			alphabet = append(alphabet, vOp{k, w})
		}
	}
	alphabet = append(alphabet, vOp{"acqc", 1}, vOp{"acqc", 3}, vOp{"cancel", 0}, vOp{"cancel", 1}, vOp{"force", 1}, vOp{"force", 2},
		vOp{"size", 0}, vOp{"size", 1}, vOp{"size", 2}, vOp{"size", 4})
	var rec func(prefix []vOp, depth int) bool
	rec = func(prefix []vOp, depth int) bool {
		if depth == 0 {
			for _, init := range []int64{2, 3} {
				v, applied := vRunHistory(init, prefix)
				st.counters["exhaustive_histories"]++
				st.counters["steps"] += applied
				if v != "" {
					st.violation("semaphore-seq", "model", fmt.Sprintf("size %d: %s", init, v), prefix)
					return false
				}
			}
			return true
		}
		for _, op := range alphabet {
			if !rec(append(append([]vOp{}, prefix...), op), depth-1) {
				return false
			}
		}
		return true
	}
	rec(nil, exLen)
	st.counters["exhaustive_len"] = exLen
	st.counters["alphabet"] = len(alphabet)
	// random long histories, incl. sizes and weights at the int64 boundary (the semaphore is used as a wait group with size MaxInt64)
	big := []int64{math.MaxInt64, math.MaxInt64 - 1, math.MaxInt64 / 2, 1 << 62}
	for i := 0; i < n && st.viol < 3; i++ {
		init := int64(1 + r.Intn(6))
		useBig := i%4 == 3
		if useBig {
			init = big[r.Intn(len(big))]
		}
		l := 5 + r.Intn(40)
		ops := make([]vOp, 0, l)
		for j := 0; j < l; j++ {
			w := int64(1 + r.Intn(4))
			if useBig && r.Intn(3) == 0 {
				w = big[r.Intn(len(big))] - int64(r.Intn(3))
			}
			switch x := r.Intn(100); {
			case x < 18:
				ops = append(ops, vOp{"try", w})
			case x < 42:
				ops = append(ops, vOp{"acq", w})
			case x < 48:
				ops = append(ops, vOp{"acqc", w})
			case x < 60:
				ops = append(ops, vOp{"cancel", int64(r.Intn(4))})
			case x < 82:
				ops = append(ops, vOp{"rel", w})
			case x < 90:
				ops = append(ops, vOp{"force", w})
			default:
				sz := int64(r.Intn(8))
				if useBig && r.Intn(2) == 0 {
					sz = big[r.Intn(len(big))]
				}
				ops = append(ops, vOp{"size", sz})
			}
		}
		v, applied := vRunHistory(init, ops)
		st.counters["random_histories"]++
		st.counters["steps"] += applied
		st.distinct[fmt.Sprint(init, ops)] = true
		if v != "" {
			st.violation("semaphore-seq", "model", fmt.Sprintf("size %d: %s", init, v), ops)
		}
		if i < 2 {
			st.samples = append(st.samples, map[string]any{"size": init, "ops": ops})
		}
	}
	st.done("semaphore-seq")
}

// ---------------------------------------------------------------- (b) concurrent histories + porcupine

type vIn struct {
	K string
	N int64
}
type vOut struct {
	OK bool
}

type vState struct{ cur, size int64 }

var vSemModel = porcupine.Model{
	Init: func() any { return vState{0, 0} },
	Step: func(st, in, out any) (bool, any) {
		s := st.(vState)
		i := in.(vIn)
		o := out.(vOut)
		switch i.K {
		case "init":
			return true, vState{0, i.N}
		case "try", "acq":
			if !o.OK {
				return true, s // a failed TryAcquire / cancelled Acquire leaves the semaphore unchanged
			}
			if s.size-s.cur < i.N {
				return false, s // admitted although it does not fit: over-admission
			}
			return true, vState{s.cur + i.N, s.size}
		case "rel":
			if s.cur < i.N {
				return false, s
			}
			return true, vState{s.cur - i.N, s.size}
		case "force":
			return true, vState{s.cur + i.N, s.size}
		case "size":
			return true, vState{s.cur, i.N}
		case "observe":
			// Observe returned (cur,size) packed in N? not used
			return true, s
		}
		return false, s
	},
	DescribeOperation: func(in, out any) string { return fmt.Sprintf("%v->%v", in, out) },
}

func TestVerifC42Conc(t *testing.T) {
	seed := int64(vEnvInt("VERIF_SEED", 1))
	hist := vEnvInt("VERIF_N", 300)
	st := &vStats{counters: map[string]int{}, distinct: map[string]bool{}}
	var clock int64
	now := func() int64 { return atomic.AddInt64(&clock, 1) }
	for h := 0; h < hist && st.viol < 3; h++ {
		r := rand.New(rand.NewSource(seed*131071 + int64(h)))
		size := int64(1 + r.Intn(5))
		s := NewWeighted(size)
		workers := 3 + r.Intn(6)
		opsPer := 3 + r.Intn(6)
		var mu sync.Mutex
		var ops []porcupine.Operation
		t0 := now()
		ops = append(ops, porcupine.Operation{ClientId: 0, Input: vIn{"init", size}, Output: vOut{true}, Call: t0, Return: now()})
		var wg sync.WaitGroup
		var blocked int64
		for w := 0; w < workers; w++ {
			wg.Add(1)
			wr := rand.New(rand.NewSource(seed*7 + int64(h)*1000 + int64(w)))
			go func(id int) {
				defer wg.Done()
				var held []int64
				record := func(in vIn, out vOut, c, rt int64) {
					mu.Lock()
					ops = append(ops, porcupine.Operation{ClientId: id, Input: in, Output: out, Call: c, Return: rt})
					mu.Unlock()
				}
				for k := 0; k < opsPer; k++ {
					n := int64(1 + wr.Intn(3))
					switch x := wr.Intn(100); {
					case x < 25:
						c := now()
						ok := s.TryAcquire(n)
						record(vIn{"try", n}, vOut{ok}, c, now())
						if ok {
							held = append(held, n)
						}
					case x < 60:
						d := time.Duration(wr.Intn(300)) * time.Microsecond
						ctx, cancel := context.WithTimeout(context.Background(), d+50*time.Microsecond)
						c := now()
						atomic.AddInt64(&blocked, 1)
						err := s.Acquire(ctx, n)
						atomic.AddInt64(&blocked, -1)
						record(vIn{"acq", n}, vOut{err == nil}, c, now())
						cancel()
						if err == nil {
							held = append(held, n)
						}
					case x < 85:
						if len(held) > 0 {
							n = held[len(held)-1]
							held = held[:len(held)-1]
							c := now()
							s.Release(n)
							record(vIn{"rel", n}, vOut{true}, c, now())
						}
					case x < 92:
						c := now()
						s.ForceAcquire(n)
						record(vIn{"force", n}, vOut{true}, c, now())
						held = append(held, n)
					default:
						ns := int64(wr.Intn(6))
						c := now()
						s.SetSize(ns)
						record(vIn{"size", ns}, vOut{true}, c, now())
					}
					if wr.Intn(3) == 0 {
						runtime.Gosched()
					}
				}
				// give back what this worker still holds
				for _, n := range held {
					c := now()
					s.Release(n)
					record(vIn{"rel", n}, vOut{true}, c, now())
				}
			}(w + 1)
		}
		done := make(chan struct{})
		go func() { wg.Wait(); close(done) }()
		select {
		case <-done:
		case <-time.After(60 * time.Second):
			vEmit(map[string]any{"t": "inconclusive", "msg": "concurrent semaphore history did not finish within 60s (watchdog)"})
			continue
		}
		st.counters["concurrent_histories"]++
		st.counters["operations"] += len(ops)
		// quiescence: everything released, no waiters may remain, cur must be 0
		s.mu.Lock()
		cur, wl := s.cur, s.waiters.Len()
		s.mu.Unlock()
		if cur != 0 || wl != 0 {
			st.violation("semaphore-conc", "quiescence", fmt.Sprintf("after all workers released everything: cur=%d waiters=%d", cur, wl), vDescribe(ops))
			continue
		}
		res, _ := porcupine.CheckOperationsVerbose(vSemModel, ops, 20*time.Second)
		switch res {
		case porcupine.Ok:
			st.counters["linearizable"]++
		case porcupine.Unknown:
			st.counters["checker_timeouts"]++
			vEmit(map[string]any{"t": "inconclusive", "msg": "porcupine timed out on a semaphore history"})
		case porcupine.Illegal:
			st.violation("semaphore-conc", "over-admission", fmt.Sprintf("history of %d operations is not linearizable against the admission model (an acquisition succeeded where cur+n > size at every possible point)", len(ops)), vDescribe(ops))
		}
		st.distinct[fmt.Sprintf("w%d/o%d/s%d", workers, opsPer, size)] = true
		if h < 1 {
			st.samples = append(st.samples, vDescribe(ops)[:min(12, len(ops))])
		}
	}
	// lost-wakeup stress: a queue of waiters behind cancellable ones, releases racing with cancellations
	lw := vEnvInt("VERIF_LW", 2000)
	for i := 0; i < lw && st.viol < 3; i++ {
		r := rand.New(rand.NewSource(seed*524287 + int64(i)))
		size := int64(2 + r.Intn(3))
		s := NewWeighted(size)
		if err := s.Acquire(context.Background(), size); err != nil {
			t.Fatal(err)
		}
		k := 2 + r.Intn(4)
		type wt struct {
			n      int64
			cancel context.CancelFunc
			done   chan error
		}
		var ws []*wt
		for j := 0; j < k; j++ {
			ctx, cancel := context.WithCancel(context.Background())
			w := &wt{n: int64(1 + r.Intn(int(size))), cancel: cancel, done: make(chan error, 1)}
			ws = append(ws, w)
			go func() { w.done <- s.Acquire(ctx, w.n) }()
			vWaitQueued(s, j+1)
		}
		// race: cancel some waiters while releasing the holder's tokens in pieces
		var wg sync.WaitGroup
		for j := 0; j < k; j++ {
			if r.Intn(2) == 0 {
				wg.Add(1)
				go func(w *wt) { defer wg.Done(); w.cancel() }(ws[j])
			}
		}
		wg.Add(1)
		go func() {
			defer wg.Done()
			for x := int64(0); x < size; x++ {
				s.Release(1)
				runtime.Gosched()
			}
		}()
		wg.Wait()
		// settle: every waiter that returned success releases; repeat until nobody can make progress
		admittedOrCancelled := 0
		deadline := time.After(20 * time.Second)
		pending := append([]*wt{}, ws...)
	settle:
		for len(pending) > 0 {
			progressed := false
			for idx := 0; idx < len(pending); idx++ {
				select {
				case err := <-pending[idx].done:
					if err == nil {
						s.Release(pending[idx].n)
					}
					pending = append(pending[:idx], pending[idx+1:]...)
					idx--
					admittedOrCancelled++
					progressed = true
				default:
				}
			}
			if progressed {
				continue
			}
			// nobody returned: check the lost-wakeup invariant under the lock
			s.mu.Lock()
			f := s.waiters.Front()
			fits := f != nil && s.size-s.cur >= f.Value.(waiter).n
			cur := s.cur
			wl := s.waiters.Len()
			s.mu.Unlock()
			if fits {
				// the admission may be in flight only while the lock is held by the admitter, so seeing it under
				// the lock is conclusive
				st.violation("semaphore-conc", "lost-wakeup", fmt.Sprintf("first waiter fits (cur=%d size=%d, %d waiters) but stays queued", cur, size, wl), map[string]any{"iteration": i, "size": size, "waiters": k})
				break settle
			}
			if wl == 0 && cur == 0 {
				// remaining goroutines are between admission and return; wait for them
				select {
				case <-deadline:
					vEmit(map[string]any{"t": "inconclusive", "msg": "lost-wakeup stress: waiters did not return within 20s"})
					break settle
				default:
					time.Sleep(10 * time.Microsecond)
				}
				continue
			}
			if wl > 0 && cur == 0 {
				st.violation("semaphore-conc", "lost-wakeup", fmt.Sprintf("nothing is held (cur=0 size=%d) but %d waiters stay queued", size, wl), map[string]any{"iteration": i})
				break settle
			}
			select {
			case <-deadline:
				vEmit(map[string]any{"t": "inconclusive", "msg": "lost-wakeup stress: no progress within 20s"})
				break settle
			default:
				time.Sleep(10 * time.Microsecond)
			}
		}
		for _, w := range ws {
			w.cancel()
		}
		st.counters["lost_wakeup_races"]++
	}
	st.done("semaphore-conc")
}

func vDescribe(ops []porcupine.Operation) []string {
	out := make([]string, 0, len(ops))
	for _, o := range ops {
		out = append(out, fmt.Sprintf("c%d [%d,%d] %s(%d)=%v", o.ClientId, o.Call, o.Return, o.Input.(vIn).K, o.Input.(vIn).N, o.Output.(vOut).OK))
	}
	return out
}
