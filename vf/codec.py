"""Engine A (gencodec): current tl2gen -> Go package -> generic harness (harness/codec/*.go.tmpl)."""
import glob
import json
import os
import shutil

from . import core, gen, inpkg

# generator configurations (DESIGN 4.2)
CONFIGS = {
    "tl2all":     dict(tl2="*", bytes_versions="*", sanity=True),
    "tl2all-nosanity": dict(tl2="*", bytes_versions="*", sanity=False),
    "split":      dict(tl2="*", bytes_versions="*", sanity=True, split=True),
    "tl1only":    dict(tl2="", bytes_versions="*", sanity=True),
    "nobytes":    dict(tl2="*", bytes_versions="", sanity=True),
}


class Pkg:
    def __init__(self, name, schema, config, out_rel, imp, binary):
        self.name, self.schema, self.config, self.out_rel, self.imp, self.binary = name, schema, config, out_rel, imp, binary


def build_pkg(ctx, schema_name, schema_files, config_name, must=True):
    """generate + build the harness for one (schema set, config); returns Pkg or None (generator rejected / build failed)"""
    cfg = dict(CONFIGS[config_name])
    name = "%s_%s" % (schema_name.replace("-", "_"), config_name.replace("-", "_"))
    opts = gen.go_opts(tl2=cfg.get("tl2", "*"), split=cfg.get("split", False), bytes_versions=cfg.get("bytes_versions", ""),
                       sanity=cfg.get("sanity", True), random=True, rpc=False, extra=cfg.get("extra", ()))
    files = [f if os.path.isabs(f) else os.path.join(ctx.scratch, f) for f in schema_files]
    r, out_rel, imp = gen.gen_go(ctx, name, files, opts)
    if r.rc != 0:
        msg = "tl2gen rejected schema set %s with config %s (rc=%d): %s" % (schema_name, config_name, r.rc, r.tail(600))
        if must:
            raise core.CheckBroken(msg)
        ctx.note(msg[:300])
        return None
    vh = os.path.join(ctx.scratch, out_rel, "vh")
    os.makedirs(vh, exist_ok=True)
    has_bytes = os.path.isdir(os.path.join(ctx.scratch, out_rel, "factory_bytes"))
    has_tl2 = bool(cfg.get("tl2", "*"))
    for t in sorted(glob.glob(os.path.join(core.VERIF, "harness", "codec", "*.go.tmpl"))):
        if os.path.basename(t) == ("tl2fn_stub.go.tmpl" if has_tl2 else "tl2fn.go.tmpl"):
            continue
        src = open(t).read().replace("IMPORT_BASE", imp)
        if has_bytes:
            src = src.replace("//BYTES ", "")
        open(os.path.join(vh, os.path.basename(t)[:-5]), "w").write(src)
    # the public namespace packages (tl, tl<namespace>) are linked too: with --split-internal each of them registers its items a second time (metamini)
    nsdirs = sorted(d for d in os.listdir(os.path.join(ctx.scratch, out_rel)) if d.startswith("tl") and os.path.isdir(os.path.join(ctx.scratch, out_rel, d))
                    and any(f.endswith(".go") for f in os.listdir(os.path.join(ctx.scratch, out_rel, d))))
    with open(os.path.join(vh, "nsimports.go"), "w") as f:
        f.write("//go:build verif\n\npackage main\n\nimport (\n" + "".join('\t_ "%s/%s"\n' % (imp, d) for d in nsdirs) + ")\n")
    b = os.path.join(ctx.work, "vh_" + name)
    rb = ctx.gobuild("./" + out_rel + "/vh", b, timeout=1200)
    if rb.rc != 0:
        msg = "generated package for %s/%s or its harness does not build: %s" % (schema_name, config_name, rb.tail(1500))
        if must:
            raise core.CheckBroken(msg)
        ctx.note(msg[:400])
        return None
    pk = Pkg(name, schema_name, config_name, out_rel, imp, b)
    pk.files = files
    return pk


def run_mode(ctx, pkg, mode, env=None, timeout=1800, mem_gb=6, what=None, max_restarts=12, fill_death_is_violation=False, reclass=None, advisory_deaths=(), resume=False, oom_is_violation=False):
    """runs one harness mode in journaled children; a child death is attributed to the last journaled item,
    reported, and the run resumes without that item. Returns (counters, extra events)."""
    what = what or ("%s on %s/%s" % (mode, pkg.schema, pkg.config))
    skip = []
    tot = {}
    extra = []
    resume_after = ""
    for attempt in range(max_restarts + 1):
        e = {"VERIF_RESUME_AFTER": resume_after, "VERIF_RESUMABLE": "1" if resume else "", "VERIF_MODE": mode, "VERIF_SEED": str(ctx.seed), "VERIF_SCHEMA": pkg.schema, "VERIF_CONFIG": pkg.config,
             "VERIF_SKIP_ITEMS": ",".join(skip), "VERIF_SANITY": "1" if CONFIGS[pkg.config].get("sanity", True) else "0"}
        # the address-space limit (ulimit -v) is invisible to Go's collector: give it a soft limit below it, so that garbage is collected
        # before the limit is hit (a single allocation above the limit still fails as before)
        e["GOMEMLIMIT"] = "%dMiB" % (mem_gb * 1024 * 6 // 10)
        if env:
            e.update({k: str(v) for k, v in env.items()})
        r = ctx.run([pkg.binary], env=e, timeout=timeout, mem_gb=mem_gb, quit_dump=False)
        events = list(r.json_lines())
        summaries = [ev for ev in events if ev.get("t") == "summary"]
        last = None
        for ev in events:
            if ev.get("t") == "journal":
                last = ev
            elif ev.get("t") not in ("violation", "summary", "summary-partial", "note", "inconclusive"):
                extra.append(ev)
        vevents = [ev for ev in events if ev.get("t") in ("violation", "note", "inconclusive")]
        if reclass:
            for ev in vevents:
                if ev.get("t") == "violation":
                    reclass(ev)
        inpkg.absorb(ctx, r, vevents, what, expect_summary=False)
        if summaries:
            t = inpkg.merge_counters(ctx, summaries)
            for k, v in t.items():
                tot[k] = tot.get(k, 0) + v
            return tot, extra
        # died
        tail = r.crash_head(2500)
        if r.timed_out:
            ctx.inconc("%s: child hit the watchdog at item %s" % (what, last and last.get("item")))
        cls = inpkg.classify_death(tail)
        item = last.get("item") if last else ""
        if last and last.get("what") == "fill-random" and not fill_death_is_violation:
            # the value generator (generated FillRandom) died: that is C18's property, here the item is just not covered
            ctx.note("%s: FillRandom of %s killed the child (%s); item skipped (decided by C18)" % (what, item, cls))
            ctx.cov.setdefault("counters", {})["items_skipped_because_fillrandom_dies"] = ctx.cov.get("counters", {}).get("items_skipped_because_fillrandom_dies", 0) + 1
        elif cls == "out-of-memory" and not oom_is_violation and not r.timed_out:
            # a legitimately large random value can exhaust the child's memory cap while it is held in several encodings: that is not the
            # property of this check (C08 decides allocation on hostile input and keeps it a violation); the item is given up
            ctx.note("%s: child ran out of memory (cap %d GB) at '%s' of item %s: item skipped" % (what, mem_gb, last and last.get("what"), item))
            c = ctx.cov.setdefault("counters", {})
            c["items_skipped_after_out_of_memory"] = c.get("items_skipped_after_out_of_memory", 0) + 1
        elif last and any((str(last.get("what", "")).startswith(a[4:]) and cls == "out-of-memory") if a.startswith("oom:") else str(last.get("what", "")).startswith(a) for a in advisory_deaths):
            ctx.note("%s: child died (%s) at '%s' of item %s: outside the property, item skipped" % (what, cls, last.get("what"), item))
            c = ctx.cov.setdefault("counters", {})
            c["advisory_child_deaths"] = c.get("advisory_child_deaths", 0) + 1
        elif not r.timed_out or item:
            ctx.violation({"oracle": "child-died", "class": cls if not r.timed_out else "timeout", "item": item, "variant": last.get("variant", "") if last else "",
                           "schema": pkg.schema, "config": pkg.config, "what": last.get("what", "") if last else ""},
                          "%s: harness process died (rc=%d, %s) while working on item %s (%s)\n%s" % (what, r.rc, cls, item, last and last.get("what"), tail[:1800]),
                          {"tail.txt": tail})
        if not item or item in skip:
            break
        if resume:
            # the run goes on after the dying item; what the dead child had counted up to the previous item is kept
            partial = [ev for ev in events if ev.get("t") == "summary-partial"]
            if partial:
                t = inpkg.merge_counters(ctx, partial[-1:])
                for k, v in t.items():
                    tot[k] = tot.get(k, 0) + v
            c = ctx.cov.setdefault("counters", {})
            c["items_abandoned_after_child_death"] = c.get("items_abandoned_after_child_death", 0) + 1
            if item <= resume_after:
                break
            resume_after = item
        else:
            skip.append(item)
    return tot, extra


REPO_SETS_QUICK = ["cases", "goldmaster"]
REPO_SETS_ALL = ["cases", "casestl2", "goldmaster", "schema"]


# (schema set, config) pairs whose generated code does not build on the pinned tree: that is C14's finding F31, not something the codec checks can use
UNBUILDABLE = {("schema", "split"), ("casestl2", "split")}  # the second builds but its factory_bytes panics at package init (finding F34, decided by C17)


def repo_packages(ctx, sets, configs, must=False):
    pkgs = []
    for s in sets:
        for c in configs:
            if (s, c) in UNBUILDABLE:
                continue
            p = build_pkg(ctx, s, gen.REPO_SETS[s], c, must=must)
            if p:
                pkgs.append(p)
    return pkgs


def random_packages(ctx, n, label, config="tl2all"):
    """n random SchemaGen schemas generated and built with the current tl2gen; returns [(Pkg, Schema)]"""
    from . import schemagen
    out = []
    for i in range(n):
        s = schemagen.generate(ctx.seed, "%s/%d" % (label, i))
        name = "rnd_%s_%d" % (label, i)
        path = os.path.join(ctx.work, name + ".tl")
        open(path, "w").write(s.text())
        p = build_pkg(ctx, name, [path], config, must=False)
        c = ctx.cov.setdefault("counters", {})
        c["random_schemas_generated"] = c.get("random_schemas_generated", 0) + 1
        if p is None:
            c["random_schemas_rejected_or_not_built"] = c.get("random_schemas_rejected_or_not_built", 0) + 1
            continue
        p.schema = "random:%s/%d" % (label, i)
        out.append((p, s))
    return out


def sanity_reclass(schema):
    """known finding F2 on random schemas: a length-sanity rejection is only 'known' for items whose AST has arrays of small elements"""
    from . import schemagen
    by_name = {}
    for d in schema.decls:
        for c in d.constructors:
            by_name[c.lname] = d
        by_name[d.uname] = d
    for fn in schema.functions:
        by_name[fn.name] = fn

    def f(ev):
        cl = ev.get("class", "")
        d = by_name.get(ev.get("item", ""))
        if d is not None and cl.endswith("length-sanity") and schemagen.has_small_element_arrays(d):
            ev["class"] = cl + "-small-elements"
    return f


# checks that also run on the crafted TL2-origin schema (tl2_shapes)
TL2_SHAPE_MODES = {"c03", "c05", "c08", "c09", "c10", "c43"}


def simple_check(ctx, mode, rule, require, quick_values, thorough_values, configs_quick=("tl2all",), configs_thorough=("tl2all", "split", "nobytes"),
                 count_keys=("values",), env=None, fill_death_is_violation=False, sets_quick=None, mem_gb=6, random_quick=0, random_thorough=0, oom_is_violation=False, extra_texts=(), advisory_deaths=()):
    thorough = ctx.tier == "thorough"
    ctx.make_scratch()
    sets = REPO_SETS_ALL if thorough else (sets_quick or REPO_SETS_QUICK)
    pkgs = repo_packages(ctx, sets, configs_thorough if thorough else configs_quick)
    tot = {}
    e = {"VERIF_VALUES": thorough_values if thorough else quick_values}
    if env:
        e.update(env)
    for p in pkgs:
        t, _ = run_mode(ctx, p, mode, env=e, fill_death_is_violation=fill_death_is_violation, mem_gb=mem_gb, oom_is_violation=oom_is_violation, advisory_deaths=advisory_deaths)
        for k, v in t.items():
            tot[k] = tot.get(k, 0) + v
    if mode in TL2_SHAPE_MODES:
        extra_texts = list(extra_texts) + [("shapes.tl2", tl2_shapes())]
    for xname, xtext in extra_texts:
        xp = os.path.join(ctx.work, "crafted_%s_%s" % (mode, xname if xname.endswith(".tl2") else xname + ".tl"))
        with open(xp, "w") as f:
            f.write(xtext)
        p = build_pkg(ctx, "crafted_%s_%s" % (mode, xname.replace(".", "_")), [xp], "tl2all")
        p.schema = "crafted:" + xname
        t, _ = run_mode(ctx, p, mode, env=e, fill_death_is_violation=fill_death_is_violation, mem_gb=mem_gb, oom_is_violation=oom_is_violation, advisory_deaths=advisory_deaths)
        for k, v in t.items():
            tot[k] = tot.get(k, 0) + v
            tot["crafted_" + k] = tot.get("crafted_" + k, 0) + v
    nrand = random_thorough if thorough else random_quick
    rpk = random_packages(ctx, nrand, mode) if nrand else []
    for p, sch in rpk:
        t, _ = run_mode(ctx, p, mode, env=e, fill_death_is_violation=fill_death_is_violation, mem_gb=mem_gb, reclass=sanity_reclass(sch), oom_is_violation=oom_is_violation, advisory_deaths=advisory_deaths)
        for k, v in t.items():
            tot[k] = tot.get(k, 0) + v
            tot["random_" + k] = tot.get("random_" + k, 0) + v
    if nrand:
        rule += " Plus %d random SchemaGen schemas (structs, masks, nat-sized arrays, unions, templates, recursion...) generated and built per run." % nrand
        ctx.cov.setdefault("counters", {})["random_schemas_exercised"] = len(rpk)
        ctx.require("random schemas exercised", len(rpk), max(1, nrand // 2))
    ctx.cov["rule"] = rule
    ctx.count(sum(tot.get(k, 0) for k in count_keys))
    for label, key, need in require:
        ctx.require(label, tot.get(key, 0), need)
    cfgs = configs_thorough if thorough else configs_quick
    ctx.require("generated packages", len(pkgs), len([1 for s in sets for c in cfgs if (s, c) not in UNBUILDABLE]))
    return tot


# a TL2-origin schema of shapes the repository's cases.tl2 does not hold: reserved ("_") fields at and around the boundaries of the presence-mask
# blocks (8 fields per block), optional and bit fields in later blocks, unions whose variants carry reserved fields
def tl2_shapes():
    out = []
    for pos in (0, 6, 7, 8, 15, 16):
        fs = []
        for i in range(19):
            if i == pos:
                fs.append("_:int32")
            elif i % 5 == 4:
                fs.append("f%d:string" % i)
            elif i % 7 == 3:
                fs.append("f%d?:int32" % i)
            elif i % 9 == 5:
                fs.append("f%d:bit" % i)
            else:
                fs.append("f%d:int32" % i)
        out.append("sh.reserved%d = %s ;" % (pos, " ".join(fs)))
    out.append("sh.twoReserved = a:int32 _:string c:int32 d:int32 e:int32 f:int32 g:int32 _:int32 i:int32 j?:string k:bit _:[]int32 m:int32 n:int32 o:int32 p:int32 q:string ;")
    out.append("sh.allOptional = " + " ".join("o%d?:int32" % i for i in range(17)) + " ;")
    out.append("sh.bits = " + " ".join("b%d:bit" % i for i in range(18)) + " tail:int32 ;")
    out.append("sh.Un = | plain x:int32 | res a:int32 _:int32 c:string d:int32 e:int32 f:int32 g:int32 _:int32 i:int32 | wide " + " ".join("w%d:int32" % i for i in range(10)) + " | alias int32 ;")
    out.append("sh.holder = u:sh.Un r:sh.reserved7 v:[]sh.reserved8 m:[string]sh.reserved15 o?:sh.reserved16 t:[2]sh.twoReserved ;")
    return "\n".join(out) + "\n"
