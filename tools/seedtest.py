#!/usr/bin/env python3
"""Confirm a sub-agent's seeded change and run our checks against it.

usage: seedtest.py <worktree> <seeddir-name> <PROPERTY> [--checks C21,C25] [--no-suite] [--tier quick]
 1. demo passes on the clean worktree, fails with the patch
 2. the repository suite passes with the patch (demo removed)
 3. each listed check is run with VERIF_REPO=<worktree with patch>; evidence redirected
 4. the seed is stored under /verif/seeded/<PROPERTY>-<name>/ with meta.json
"""
import argparse
import glob
import json
import os
import re
import shutil
import subprocess
import sys
import time

VERIF = "/verif"
GO = "/root/go/pkg/mod/golang.org/toolchain@v0.0.1-go1.24.0.linux-amd64/bin"
ENV = dict(os.environ, PATH=GO + ":" + os.environ["PATH"], GOTOOLCHAIN="local", GOSUMDB="off", GOPROXY="off", GOFLAGS="-mod=mod")


def sh(cmd, cwd, timeout=3600, env=None):
    p = subprocess.run(cmd, cwd=cwd, shell=isinstance(cmd, str), env=env or ENV, stdout=subprocess.PIPE, stderr=subprocess.STDOUT, timeout=timeout)
    return p.returncode, p.stdout.decode("utf-8", "replace")


def main():
    ap = argparse.ArgumentParser()
    ap.add_argument("wt")
    ap.add_argument("seed")
    ap.add_argument("prop")
    ap.add_argument("--checks", default="")
    ap.add_argument("--no-suite", action="store_true")
    ap.add_argument("--no-confirm", action="store_true")
    ap.add_argument("--tier", default="quick")
    ap.add_argument("--demo-dir", default="")
    ap.add_argument("--name", default="")
    a = ap.parse_args()
    wt, sd = a.wt, os.path.join(a.wt, a.seed)
    patch = os.path.join(sd, "patch.diff")
    name = a.name or "%s-%s" % (a.prop, a.seed.strip("_").replace("seeded", "s") or "s")
    dest = os.path.join(VERIF, "seeded", name)
    meta_p = os.path.join(dest, "meta.json")
    meta = json.load(open(meta_p)) if os.path.exists(meta_p) else {}
    meta.update({"property": a.prop, "source": "independent sub-agent given only the property text and a scratch worktree"})
    rc, st = sh("git status --porcelain --untracked-files=no", wt)
    if st.strip():
        print("worktree not clean:", st)
        sh("git checkout -- .", wt)
    demos = [f for f in glob.glob(os.path.join(sd, "*_test.go"))]
    readme = open(os.path.join(sd, "README.md")).read() if os.path.exists(os.path.join(sd, "README.md")) else ""
    touched = re.findall(r"^\+\+\+ b/(\S+)", open(patch).read(), re.M)
    demo_dir = a.demo_dir
    if not demo_dir:
        m = re.search(r"((?:internal|pkg|cmd)/[\w/.-]+?)/[\w.-]+_test\.go", readme)
        demo_dir = m.group(1) if m else os.path.dirname(touched[0])
    meta["touched_files"] = touched
    meta["demo_dir"] = demo_dir
    rd = os.path.join(sd, "run_demo.sh")
    if not a.no_confirm and os.path.exists(rd):
        rc0, out0 = sh(["bash", rd], wt, timeout=1800)
        sh(["git", "apply", patch], wt)
        rc1, out1 = sh(["bash", rd], wt, timeout=1800)
        meta["demo"] = {"script": "run_demo.sh", "clean_tree_rc": rc0, "patched_rc": rc1, "patched_tail": out1[-600:]}
        print("demo(run_demo.sh): clean rc=%d patched rc=%d" % (rc0, rc1))
        if not a.no_suite:
            t0 = time.time()
            rcs, outs = sh(["go", "test", "-vet=off", "-count=1", "-timeout", "25m", "./..."], wt, timeout=3000)
            fails = [l for l in outs.splitlines() if l.startswith("FAIL") or l.startswith("--- FAIL")]
            meta["suite_with_patch"] = {"rc": rcs, "fails": fails[:10], "wall_s": round(time.time() - t0)}
            print("suite with patch: rc=%d fails=%s" % (rcs, fails[:3]))
    elif not a.no_confirm and demos:
        placed = []
        for d in demos:
            t = os.path.join(wt, demo_dir, os.path.basename(d))
            os.makedirs(os.path.dirname(t), exist_ok=True)
            shutil.copy(d, t)
            placed.append(t)
        tests = "|".join(sorted(set(re.findall(r"^func (Test\w+)\(", "\n".join(open(d).read() for d in demos), re.M))))
        rc0, out0 = sh(["go", "test", "-vet=off", "-count=1", "-run", "^(%s)$" % tests, "./" + demo_dir], wt)
        sh(["git", "apply", patch], wt)
        rc1, out1 = sh(["go", "test", "-vet=off", "-count=1", "-run", "^(%s)$" % tests, "./" + demo_dir], wt)
        for t in placed:
            os.remove(t)
        meta["demo"] = {"tests": tests, "clean_tree_rc": rc0, "patched_rc": rc1, "patched_tail": out1[-600:]}
        print("demo: clean rc=%d patched rc=%d" % (rc0, rc1))
        if not a.no_suite:
            t0 = time.time()
            rcs, outs = sh(["go", "test", "-vet=off", "-count=1", "-timeout", "25m", "./..."], wt, timeout=3000)
            fails = [l for l in outs.splitlines() if l.startswith("FAIL") or l.startswith("--- FAIL")]
            meta["suite_with_patch"] = {"rc": rcs, "fails": fails[:10], "wall_s": round(time.time() - t0)}
            print("suite with patch: rc=%d fails=%s" % (rcs, fails[:3]))
    else:
        sh(["git", "apply", patch], wt)
    # detection
    checks = [c for c in a.checks.split(",") if c]
    res = meta.setdefault("detection", {})
    for c in checks:
        ev = "/var/tmp/verif-seed-evidence/%s" % name
        os.makedirs(ev, exist_ok=True)
        env = dict(os.environ, VERIF_REPO=wt, VERIF_EVIDENCE_DIR=ev, VERIF_REPLAY_DIR=os.path.join(ev, "replay"))
        t0 = time.time()
        rc, out = sh(["bin/verif", "check", c, "--tier", a.tier], VERIF, env=env, timeout=7200)
        viol = [l for l in out.splitlines() if l.startswith("VIOLATION")]
        first = ""
        if viol:
            i = out.index(viol[0])
            first = out[i:i + 700]
        res["%s/%s" % (c, a.tier)] = {"rc": rc, "violations": len(viol), "first": first, "wall_s": round(time.time() - t0), "tail": out[-300:] if rc != 1 else ""}
        print("check %s %s: rc=%d violations=%d" % (c, a.tier, rc, len(viol)))
    sh("git checkout -- .", wt)
    os.makedirs(dest, exist_ok=True)
    shutil.copy(patch, os.path.join(dest, "patch.diff"))
    for d in demos:
        shutil.copy(d, os.path.join(dest, os.path.basename(d) + ".txt"))
    # everything else the agent delivered (scripts, demo schemas, nested demo directories), except logs and build output
    for root, dirs, files in os.walk(sd):
        dirs[:] = [x for x in dirs if x not in ("gen", "out", "work", "obj")]
        for f in files:
            src = os.path.join(root, f)
            rel = os.path.relpath(src, sd)
            if rel in ("patch.diff", "README.md") or f.endswith(".log") or os.path.getsize(src) > 200000 or (root == sd and f.endswith("_test.go")):
                continue
            t = os.path.join(dest, "demo_files", rel + (".txt" if f.endswith(".go") else ""))
            os.makedirs(os.path.dirname(t), exist_ok=True)
            shutil.copy(src, t)
    if readme:
        open(os.path.join(dest, "README.agent.md"), "w").write(readme)
    m = re.search(r"(?is)(trigger|needs?|manifest)[^\n]*\n(.{0,600})", readme)
    meta.setdefault("needs_to_manifest", "see README.agent.md")
    json.dump(meta, open(meta_p, "w"), indent=1)
    print("stored", dest)


if __name__ == "__main__":
    main()
