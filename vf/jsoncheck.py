"""C06 schema-aware phase: canonical documents of generated code on random schemas -> alternative forms (vf/jsonalt.py) -> generated JSON readers."""
import os

from . import codec, core, jsonalt, schemagen


def fixed_schema():
    """shapes every documented alternative form needs at least once (nested local masks, true bits, Maybe, enums, sized arrays)"""
    S, D, C, F, T, N = schemagen.Schema, schemagen.Decl, schemagen.Constructor, schemagen.Field, schemagen.T, schemagen.NatExpr
    s = S()
    tag = [0x0c060000]

    def struct(base, fields, kind="struct"):
        d = D(kind, "vz", base, [])
        tag[0] += 1
        d.constructors.append(C(d.lname, tag[0], True, fields))
        s.decls.append(d)
        return d

    def nat(name, role="mask"):
        f = F(name, T("nat"))
        f.role = role
        return f
    i32 = lambda: T("prim", name="int", spelling="int")
    st = lambda: T("prim", name="string", spelling="string")
    ref = lambda d, bare=True: T("ref", decl=d, bare=bare, pct=False, args=[])
    m = lambda fld, bit: (N("field", fld), bit)
    nested = struct("nested", [nat("a"), F("b", T("nat"), m("a", 0)), F("c", i32(), m("b", 1)), F("d", T("true", boxed=False), m("b", 2)), F("e", st(), m("a", 3)), F("f", T("true", boxed=False), m("a", 5))])
    nested.constructors[0].fields[1].role = "mask"
    deep = struct("deep", [nat("m0"), F("m1", T("nat"), m("m0", 2)), F("m2", T("nat"), m("m1", 7)), F("leaf", i32(), m("m2", 31)), F("other", st(), m("m0", 0))])
    for f in deep.constructors[0].fields[1:3]:
        f.role = "mask"
    struct("sib", [nat("fm"), F("a", i32(), m("fm", 0)), F("flag", T("true", boxed=False), m("fm", 0)), F("other", T("true", boxed=False), m("fm", 4)), F("s", st(), m("fm", 4))])
    sib2 = struct("sib2", [nat("f1"), F("f2", T("nat"), m("f1", 0)), F("f3", T("true", boxed=False), m("f2", 1)), F("f4", T("true", boxed=False), m("f2", 1)), F("f5", i32(), m("f2", 1))])
    sib2.constructors[0].fields[1].role = "mask"
    maybes = struct("maybes", [F("m", T("maybe", elem=i32())), F("v", T("maybe", elem=T("vector", elem=i32(), form="bare"))), F("s", T("maybe", elem=st()))])
    sized = struct("sized", [nat("n", "size"), F("xs", i32(), arr=N("field", "n")), F("t", T("tuple", elem=i32(), size=N("const", 3), boxed=False)), F("k", st(), arr=N("const", 2))])
    col = D("enum", "vz", "col", [])
    for v in "ABC":
        tag[0] += 1
        col.constructors.append(C(col.lname + v, tag[0], True, []))
    s.decls.append(col)
    un = D("union", "vz", "un", [])
    tag[0] += 1
    un.constructors.append(C(un.lname + "A", tag[0], True, []))
    tag[0] += 1
    un.constructors.append(C(un.lname + "B", tag[0], True, [F("x", i32()), F("y", T("maybe", elem=st()))]))
    s.decls.append(un)
    struct("holder", [F("c", ref(col, False)), F("u", ref(un, False)), F("n", ref(nested)), F("dp", ref(deep)), F("ms", T("vector", elem=ref(maybes), form="bare")), F("sz", ref(sized)),
                      F("us", T("vector", elem=ref(un, False), form="bare")), F("cs", T("vector", elem=ref(col, False), form="bare"))])
    s.functions.append(schemagen.Function("vz.getHolder", 0x0c0600f1, "read", [nat("fm"), F("x", i32(), m("fm", 0)), F("t", T("true", boxed=False), m("fm", 1)), F("h", ref(s.decls[-1]))], T("boxedprim", name="Int")))
    return s


def run_schema(ctx, idx, config, fills, tot):
    s = schemagen.generate(ctx.seed, "c06j/%d" % idx) if idx >= 0 else fixed_schema()
    name = "c06j%d" % idx if idx >= 0 else "c06jfixed"
    path = os.path.join(ctx.work, name + ".tl")
    open(path, "w").write(s.text())
    pkg = codec.build_pkg(ctx, name, [path], config, must=False)
    if pkg is None:
        tot["schemas_rejected_or_not_built"] = tot.get("schemas_rejected_or_not_built", 0) + 1
        return
    pkg.schema = "random:c06j/%d" % idx
    tl2 = bool(codec.CONFIGS[config].get("tl2", "*"))
    items = [(d, d.constructors[0].lname if d.kind in ("struct", "typedef") else d.uname) for d in s.decls if not d.params] + [(f, f.name) for f in s.functions]
    lines, meta = [], []
    for d, nm in items:
        for k in range(fills):
            lines.append("FJ %d %s %d" % (len(lines), nm, ctx.seed * 1000 + k))
            meta.append((d, nm))
    cf = os.path.join(ctx.work, name + "_%s.fj" % config)
    open(cf, "w").write("\n".join(lines) + "\n")
    _, extra = codec.run_mode(ctx, pkg, "serve", env={"VERIF_CASES": cf}, what="canonical documents of random schema %d/%s" % (idx, config))
    res = {ev["id"]: ev for ev in extra if ev.get("t") == "res"}
    r = core.stream(ctx.seed, "c06j-alt/%d/%s" % (idx, config))
    cases, lines = [], []
    for i, (d, nm) in enumerate(meta):
        ev = res.get(i)
        if not ev or "json" not in ev:
            continue
        doc = bytes.fromhex(ev["json"]).decode("utf-8", "replace")
        try:
            j = jsonalt.loads(doc)
        except ValueError:
            continue
        if jsonalt.dumps(j) != doc:
            tot["documents_not_reserialisable"] = tot.get("documents_not_reserialisable", 0) + 1
            continue
        tot["documents"] = tot.get("documents", 0) + 1
        for lab, exp, nj in jsonalt.alternatives(d, j, r, tl2):
            text = jsonalt.dumps(nj)
            if text == doc:
                continue
            cases.append((d, nm, lab, exp, doc, text, ev["tl1"]))
            lines.append("J %d %s %s" % (len(lines), nm, text.encode().hex()))
    cf = os.path.join(ctx.work, name + "_%s.j" % config)
    open(cf, "w").write("\n".join(lines) + "\n")
    _, extra = codec.run_mode(ctx, pkg, "serve", env={"VERIF_CASES": cf}, what="alternative JSON forms on random schema %d/%s" % (idx, config))
    res = {ev["id"]: ev for ev in extra if ev.get("t") == "res"}
    tot["schemas"] = tot.get("schemas", 0) + 1
    for i, (d, nm, lab, exp, doc, text, tl1) in enumerate(cases):
        ev = res.get(i)
        if ev is None or ev.get("panic"):
            continue
        sig = {"oracle": "json-forms", "class": lab, "item": nm, "schema": pkg.schema, "config": config}
        files = {"schema.tl": s.text(), "canonical.json": doc, "alternative.json": text}
        tot["forms"] = tot.get("forms", 0) + 1
        if exp == "same":
            if not ev.get("ok"):
                ctx.violation(sig, "random schema %d (%s), item %s: the alternative form '%s' of a canonical document is rejected: %s\ncanonical   %s\nalternative %s" % (idx, config, nm, lab, ev.get("err"), doc[:600], text[:600]), files)
            elif ev.get("werr"):
                continue
            elif ev["tl1"] != tl1:
                ctx.violation(dict(sig, **{"class": lab + ":different-value"}), "random schema %d (%s), item %s: the alternative form '%s' decodes to a different value (TL1 %s instead of %s)\ncanonical   %s\nalternative %s" % (
                    idx, config, nm, lab, ev["tl1"][:200], tl1[:200], doc[:600], text[:600]), files)
            else:
                tot["same_" + lab] = tot.get("same_" + lab, 0) + 1
                ctx.distinct("%s/%s" % (nm, lab))
        else:
            if ev.get("ok"):
                ctx.violation(sig, "random schema %d (%s), item %s: the invalid form '%s' is accepted\ncanonical %s\ninvalid   %s" % (idx, config, nm, lab, doc[:600], text[:600]), files)
            else:
                tot["reject_" + lab] = tot.get("reject_" + lab, 0) + 1
                ctx.distinct("%s/%s" % (nm, lab))
