//go:build verif

// Monitors for the schema-level outputs of tl2gen (C25 canonical listing, C26 TLO) and tag uniqueness (C24).
// Placed by /verif at internal/tlast/vtlo/ in a scratch copy.
package vtlo

import (
	"bytes"
	"encoding/json"
	"fmt"
	"os"
	"path/filepath"
	"sort"
	"strings"
	"testing"
	"unicode"

	"github.com/VKCOM/tl/internal/tlast"
	tls "github.com/VKCOM/tl/internal/tlast/gentlo/tltls"
)

func emit(v map[string]any) {
	b, _ := json.Marshal(v)
	fmt.Printf("@@%s\n", b)
}

type caseT struct {
	Name      string   `json:"name"`
	Inputs    []string `json:"inputs"`
	Canonical string   `json:"canonical"`
	TLO       string   `json:"tlo"`
	Timestamp uint32   `json:"timestamp"`
}

var counters = map[string]int{}
var distinct = map[string]bool{}
var nviol int

func violation(oracle, class, schema, desc string, input any) {
	nviol++
	if nviol > 30 {
		return
	}
	b, _ := json.Marshal(input)
	emit(map[string]any{"t": "violation", "oracle": oracle, "class": class, "schema": schema, "desc": desc, "input": string(b)})
}

func effBare(t tlast.TypeRef) bool {
	if t.Bare {
		return true
	}
	n := t.Type.Name
	return len(n) > 0 && unicode.IsLower(rune(n[0]))
}

func hasNested(t tlast.TypeRef) bool {
	for _, a := range t.Args {
		if !a.IsArith && len(a.T.Args) > 0 {
			return true
		}
		if !a.IsArith && hasNested(a.T) {
			return true
		}
	}
	return false
}

func normType(t tlast.TypeRef) string {
	var sb strings.Builder
	if effBare(t) && !(len(t.Type.Name) > 0 && unicode.IsLower(rune(t.Type.Name[0]))) {
		sb.WriteString("%")
	}
	sb.WriteString(t.Type.String())
	for _, a := range t.Args {
		sb.WriteByte(' ')
		if a.IsArith {
			fmt.Fprintf(&sb, "%d", a.Arith.Res)
		} else {
			sb.WriteString("(" + normType(a.T) + ")")
		}
	}
	return sb.String()
}

func normField(f tlast.Field) string {
	var sb strings.Builder
	sb.WriteString(f.FieldName + ":")
	if f.Mask != nil {
		fmt.Fprintf(&sb, "%s.%d?", f.Mask.MaskName, f.Mask.BitNumber)
	}
	if f.IsRepeated {
		if f.ScaleRepeat.ExplicitScale {
			if f.ScaleRepeat.Scale.IsArith {
				fmt.Fprintf(&sb, "%d*", f.ScaleRepeat.Scale.Arith.Res)
			} else {
				sb.WriteString(f.ScaleRepeat.Scale.Scale + "*")
			}
		}
		sb.WriteString("[")
		for _, r := range f.ScaleRepeat.Rep {
			sb.WriteString(normField(r) + " ")
		}
		sb.WriteString("]")
		return sb.String()
	}
	sb.WriteString(normType(f.FieldType))
	return sb.String()
}

func fieldComparable(f tlast.Field) bool {
	// the canonical form flattens nested applications ("vector pair int int"), which does not parse back to the same tree
	if f.IsRepeated {
		for _, r := range f.ScaleRepeat.Rep {
			if !fieldComparable(r) {
				return false
			}
		}
		return true
	}
	return len(f.FieldType.Args) == 0
}

func hasApplication(cb *tlast.Combinator) bool {
	for _, f := range cb.Fields {
		if !fieldComparable(f) {
			return true
		}
	}
	return false
}

func checkCanonical(c caseT, all map[string]*tlast.Combinator, order []*tlast.Combinator) {
	data, err := os.ReadFile(c.Canonical)
	if err != nil {
		return
	}
	lines := strings.Split(strings.TrimRight(string(data), "\n"), "\n")
	seen := map[string]int{}
	nonBuiltin := 0
	for _, cb := range order {
		switch cb.Construct.Name.String() {
		case "int", "long", "float", "double", "string":
		default:
			nonBuiltin++
		}
	}
	counters["canonical_listings"]++
	f21 := 0
	if len(lines) != nonBuiltin+5 {
		violation("canonical", "line-count", c.Name, fmt.Sprintf("canonical listing has %d lines, the schema has %d non-primitive combinators + 5 primitives", len(lines), nonBuiltin), nil)
	}
	for li, line := range lines {
		if i := strings.Index(line, " //"); i >= 0 {
			line = line[:i]
		}
		line = strings.TrimSpace(line)
		if line == "" {
			continue
		}
		counters["canonical_lines"]++
		// name#tag
		head := strings.Fields(line)
		k := 0
		for k < len(head) && strings.HasPrefix(head[k], "@") {
			k++
		}
		if k >= len(head) || !strings.Contains(head[k], "#") {
			violation("canonical", "no-tag", c.Name, fmt.Sprintf("line %d carries no name#tag: %q", li+1, line), nil)
			continue
		}
		name := head[k][:strings.Index(head[k], "#")]
		seen[name]++
		orig := all[name]
		if orig == nil {
			if li >= 5 {
				violation("canonical", "unknown-combinator", c.Name, fmt.Sprintf("line %d lists %q which is not in the schema", li+1, name), nil)
			}
			continue
		}
		text := line + ";"
		if orig.IsFunction {
			text = "---functions---\n" + text
		}
		parsed, err := tlast.ParseTLFile(text, "canonical", tlast.LexerOptions{AllowBuiltin: true, AllowDirty: true})
		if (err != nil || len(parsed.Combinators()) != 1) && hasApplication(orig) {
			// the canonical form prints type applications without brackets ("arr:vector int"), which the field grammar cannot
			// read back: known finding F21, counted per line
			counters["canonical_lines_unparseable_because_of_type_applications(F21)"]++
			f21++
			continue
		}
		if err != nil || len(parsed.Combinators()) != 1 {
			violation("canonical", "line-does-not-parse", c.Name, fmt.Sprintf("line %d does not parse once terminated: %v: %q", li+1, err, line), nil)
			continue
		}
		p := parsed.Combinators()[0]
		if p.Construct.ID != orig.Crc32() || !p.Construct.IDExplicit {
			violation("canonical", "tag", c.Name, fmt.Sprintf("line %d: %s carries tag %08x, the schema's effective tag is %08x", li+1, name, p.Construct.ID, orig.Crc32()), nil)
			continue
		}
		if len(p.TemplateArguments) != len(orig.TemplateArguments) {
			violation("canonical", "template-arguments", c.Name, fmt.Sprintf("line %d: %s has %d template arguments, schema %d", li+1, name, len(p.TemplateArguments), len(orig.TemplateArguments)), nil)
			continue
		}
		bad := false
		for i := range p.TemplateArguments {
			if p.TemplateArguments[i].FieldName != orig.TemplateArguments[i].FieldName || p.TemplateArguments[i].IsNat != orig.TemplateArguments[i].IsNat {
				violation("canonical", "template-arguments", c.Name, fmt.Sprintf("line %d: %s template argument %d differs", li+1, name, i), nil)
				bad = true
			}
		}
		if bad {
			continue
		}
		comparable := !hasApplication(orig)
		if orig.IsFunction && hasNested(orig.FuncDecl) {
			comparable = false
		}
		if !comparable {
			counters["canonical_lines_with_type_applications(names_tags_template_arguments_only)"]++
			f21++
			continue
		}
		if len(p.Fields) != len(orig.Fields) {
			violation("canonical", "fields", c.Name, fmt.Sprintf("line %d: %s has %d fields, schema %d: %q", li+1, name, len(p.Fields), len(orig.Fields), line), nil)
			continue
		}
		for i := range p.Fields {
			if a, b := normField(p.Fields[i]), normField(orig.Fields[i]); a != b {
				violation("canonical", "fields", c.Name, fmt.Sprintf("line %d: %s field %d is %q, schema says %q", li+1, name, i, a, b), nil)
				bad = true
				break
			}
		}
		if bad {
			continue
		}
		if orig.IsFunction {
			if a, b := normType(p.FuncDecl), normType(orig.FuncDecl); a != b {
				violation("canonical", "result", c.Name, fmt.Sprintf("line %d: %s result %q, schema says %q", li+1, name, a, b), nil)
				continue
			}
		} else if p.TypeDecl.Name.String() != orig.TypeDecl.Name.String() || strings.Join(p.TypeDecl.Arguments, " ") != strings.Join(orig.TypeDecl.Arguments, " ") {
			violation("canonical", "result", c.Name, fmt.Sprintf("line %d: %s declares %s %v, schema says %s %v", li+1, name, p.TypeDecl.Name, p.TypeDecl.Arguments, orig.TypeDecl.Name, orig.TypeDecl.Arguments), nil)
			continue
		}
		am, bm := map[string]bool{}, map[string]bool{}
		for _, m := range p.Modifiers {
			am[m.Name] = true
		}
		for _, m := range orig.Modifiers {
			bm[m.Name] = true
		}
		delete(am, "any")
		delete(bm, "any")
		if fmt.Sprint(am) != fmt.Sprint(bm) {
			violation("canonical", "annotations", c.Name, fmt.Sprintf("line %d: %s annotations %v, schema %v", li+1, name, am, bm), nil)
			continue
		}
		counters["canonical_lines_fully_compared"]++
		distinct["canon/"+c.Name+"/"+name] = true
	}
	if f21 > 0 {
		violation("canonical", "fields-with-type-applications-not-reparseable", c.Name, fmt.Sprintf("%d lines of the listing print a field type application without brackets (e.g. 'arr:vector int'); once terminated they do not parse back to the same fields", f21), nil)
	}
	for name, cb := range all {
		_ = cb
		if seen[name] != 1 {
			violation("canonical", "not-exactly-once", c.Name, fmt.Sprintf("combinator %s appears %d times in the canonical listing", name, seen[name]), nil)
		}
	}
}

func checkTLO(c caseT, all map[string]*tlast.Combinator, order []*tlast.Combinator) {
	data, err := os.ReadFile(c.TLO)
	if err != nil {
		return
	}
	counters["tlo_files"]++
	var s tls.Schema
	rest, err := s.ReadTL1Boxed(data)
	if err != nil || len(rest) != 0 {
		violation("tlo", "decode", c.Name, fmt.Sprintf("TLO bytes do not decode with the generated tls package: err=%v, %d bytes left", err, len(rest)), nil)
		return
	}
	again, err := s.WriteTL1Boxed(nil)
	if err != nil || !bytes.Equal(again, data) {
		violation("tlo", "re-encode", c.Name, fmt.Sprintf("decoded TLO re-encodes differently (err=%v, %d vs %d bytes)", err, len(again), len(data)), nil)
		return
	}
	v4, ok := s.AsV4()
	if !ok {
		violation("tlo", "version", c.Name, "TLO is not a tls.schema_v4", nil)
		return
	}
	if uint32(v4.Version) != c.Timestamp || uint32(v4.Date) != c.Timestamp {
		violation("tlo", "timestamp", c.Name, fmt.Sprintf("version=%d date=%d, --schemaTimestamp=%d", uint32(v4.Version), uint32(v4.Date), c.Timestamp), nil)
	}
	if int(v4.TypesNum) != len(v4.Types) || int(v4.ConstructorNum) != len(v4.Constructors) || int(v4.FunctionsNum) != len(v4.Functions) {
		violation("tlo", "counts", c.Name, "declared counts differ from the array lengths", nil)
	}
	// expected description from the parsed input (names, effective tags, arity, parameter kinds)
	type typeExp struct {
		xor    uint32
		n      int
		arity  int
		params int64
	}
	types := map[string]*typeExp{}
	for _, cb := range order {
		if cb.IsFunction {
			continue
		}
		tn := cb.TypeDecl.Name.String()
		te := types[tn]
		if te == nil {
			te = &typeExp{arity: len(cb.TypeDecl.Arguments)}
			for i, ta := range cb.TemplateArguments {
				if ta.IsNat {
					te.params |= 1 << i
				}
			}
			types[tn] = te
		}
		te.xor ^= cb.Crc32()
		te.n++
	}
	gotTypes := map[string]bool{}
	for _, t := range v4.Types {
		if t.Id == "#" || t.Id == "Type" {
			continue
		}
		if gotTypes[t.Id] {
			violation("tlo", "type-twice", c.Name, "type "+t.Id+" listed twice", nil)
		}
		gotTypes[t.Id] = true
		te := types[t.Id]
		if te == nil {
			violation("tlo", "unknown-type", c.Name, "TLO lists type "+t.Id+" which the schema does not declare", nil)
			continue
		}
		counters["tlo_types"]++
		if uint32(t.Name) != te.xor {
			violation("tlo", "type-name", c.Name, fmt.Sprintf("type %s has name %08x, XOR of its constructor tags is %08x", t.Id, uint32(t.Name), te.xor), nil)
		}
		if int(t.ConstructorsNum) != te.n || int(t.Arity) != te.arity || t.ParamsType != te.params {
			violation("tlo", "type-description", c.Name, fmt.Sprintf("type %s: constructors %d arity %d params %b, schema says %d %d %b", t.Id, t.ConstructorsNum, t.Arity, t.ParamsType, te.n, te.arity, te.params), nil)
		}
		distinct["tlo/"+c.Name+"/"+t.Id] = true
	}
	for tn := range types {
		if !gotTypes[tn] {
			violation("tlo", "type-missing", c.Name, "type "+tn+" of the schema is not in the TLO", nil)
		}
	}
	seen := map[string]int{}
	check := func(list []tls.Combinator, fn bool) {
		for _, cu := range list {
			cv, ok := cu.AsV4()
			if !ok {
				violation("tlo", "combinator-version", c.Name, "combinator is not v4", nil)
				continue
			}
			seen[cv.Id]++
			orig := all[cv.Id]
			if orig == nil {
				violation("tlo", "unknown-combinator", c.Name, "TLO lists "+cv.Id+" which the schema does not declare", nil)
				continue
			}
			counters["tlo_combinators"]++
			if orig.IsFunction != fn {
				violation("tlo", "section", c.Name, fmt.Sprintf("%s listed as function=%v, schema says %v", cv.Id, fn, orig.IsFunction), nil)
			}
			if uint32(cv.Name) != orig.Crc32() {
				violation("tlo", "tag", c.Name, fmt.Sprintf("%s has tag %08x in the TLO, effective tag %08x in the schema", cv.Id, uint32(cv.Name), orig.Crc32()), nil)
			}
			if !fn {
				if te := types[orig.TypeDecl.Name.String()]; te != nil && uint32(cv.TypeName) != te.xor {
					switch cv.Id {
					case "int", "long", "float", "double", "string":
					default:
						violation("tlo", "type-name-ref", c.Name, fmt.Sprintf("%s refers to type name %08x, expected %08x", cv.Id, uint32(cv.TypeName), te.xor), nil)
					}
				}
			}
			distinct["tlo/"+c.Name+"/"+cv.Id] = true
		}
	}
	check(v4.Constructors, false)
	check(v4.Functions, true)
	for name := range all {
		if seen[name] != 1 {
			violation("tlo", "not-exactly-once", c.Name, fmt.Sprintf("combinator %s appears %d times in the TLO", name, seen[name]), nil)
		}
	}
	emit(map[string]any{"t": "tlo", "name": c.Name, "types": len(v4.Types), "constructors": len(v4.Constructors), "functions": len(v4.Functions)})
}

func TestVerifSchemaOutputs(t *testing.T) {
	dir := os.Getenv("VERIF_CASES_DIR")
	files, _ := filepath.Glob(filepath.Join(dir, "*.case.json"))
	sort.Strings(files)
	for _, f := range files {
		b, _ := os.ReadFile(f)
		var c caseT
		if json.Unmarshal(b, &c) != nil {
			continue
		}
		all := map[string]*tlast.Combinator{}
		var order []*tlast.Combinator
		ok := true
		for _, in := range c.Inputs {
			txt, _ := os.ReadFile(in)
			tl, err := tlast.ParseTLFile(string(txt), in, tlast.LexerOptions{AllowBuiltin: true, AllowDirty: true})
			if err != nil {
				ok = false
				break
			}
			for _, cb := range tl.Combinators() {
				all[cb.Construct.Name.String()] = cb
				order = append(order, cb)
			}
		}
		if !ok {
			counters["cases_not_parseable"]++
			continue
		}
		counters["cases"]++
		// C24 at the schema level: an accepted schema has pairwise distinct non-zero tags
		tags := map[uint32]string{}
		for _, cb := range order {
			tg := cb.Crc32()
			if tg == 0 {
				violation("tags", "zero-tag-accepted", c.Name, "accepted schema has a zero tag on "+cb.Construct.Name.String(), nil)
			}
			if p, dup := tags[tg]; dup && p != cb.Construct.Name.String() {
				violation("tags", "duplicate-tag-accepted", c.Name, fmt.Sprintf("accepted schema has tag %08x on both %s and %s", tg, p, cb.Construct.Name.String()), nil)
			}
			tags[tg] = cb.Construct.Name.String()
			counters["tags_checked"]++
		}
		if c.Canonical != "" {
			checkCanonical(c, all, order)
		}
		if c.TLO != "" {
			checkTLO(c, all, order)
		}
	}
	emit(map[string]any{"t": "summary", "name": "schema-outputs", "counters": counters, "distinct": len(distinct), "violations": nviol})
}
