"""C24 accepted schemas have unique non-zero constructor tags (engine C, both generators)."""
import os
import re

from .. import core, gen, inpkg, schemagen, schemaout

ANSI = re.compile(r"\x1b\[[0-9;]*m")


def run(ctx):
    thorough = ctx.tier == "thorough"
    ctx.make_scratch()
    tl2gen = gen.tool(ctx, "tl2gen")
    tlgen = gen.tool(ctx, "tlgen")
    r = core.stream(ctx.seed, "c24")
    n = 480 if thorough else 64
    kinds = ["explicit-explicit", "implicit-explicit", "function-constructor", "explicit-zero", "implicit-zero", "tl2-magic-vs-tl1", "tl2-magic-zero", "tl2-magic-twice",
             "bool-bool", "bool-zero", "wrapper-constructor", "wrapper-wrapper", "wrapper-tl2-magic", "tl2-type-magic-zero", "tl2-type-magic-vs-tl1", "tl2-type-magic-twice"]
    stats = {}

    def lint(which, files):
        if which == "tl2gen":
            rr = ctx.run([tl2gen, "--language=lint"] + files, cwd=ctx.scratch, timeout=120)
        else:
            rr = ctx.run([tlgen] + files, cwd=ctx.scratch, timeout=120)
        return rr, ANSI.sub("", rr.text(300000))

    for i in range(n):
        kind = kinds[i % len(kinds)]
        s = schemagen.generate(ctx.seed, "c24/%d" % i, max_types=8)
        base = s.text()
        d = os.path.join(ctx.work, "c24_%d" % i)
        os.makedirs(d)
        p0 = os.path.join(d, "base.tl")
        open(p0, "w").write(base)
        ok = True
        for which in ("tl2gen", "tlgen"):
            rr, _ = lint(which, [p0])
            if rr.rc != 0:
                ok = False
        if not ok:
            stats["base_schema_not_accepted"] = stats.get("base_schema_not_accepted", 0) + 1
            continue
        ctors = [(dcl, c) for dcl in s.decls for c in dcl.constructors]
        files = None
        tagtext = None
        if kind in ("explicit-explicit", "implicit-explicit"):
            want_implicit = kind == "implicit-explicit"
            srcs = [(dcl, c) for dcl, c in ctors if (not c.explicit) == want_implicit]
            if not srcs or len(ctors) < 2:
                continue
            (d1, c1) = r.pick(srcs)
            (d2, c2) = r.pick([x for x in ctors if x[1] is not c1])
            old = (c2.tag, c2.explicit)
            c2.tag, c2.explicit = c1.tag, True
            text = s.text()
            c2.tag, c2.explicit = old
            tagtext = "%08x" % c1.tag
            files = {"s.tl": text}
        elif kind == "function-constructor":
            if not s.functions or not ctors:
                continue
            f = r.pick(s.functions)
            (d1, c1) = r.pick(ctors)
            old = f.tag
            f.tag = c1.tag
            text = s.text()
            f.tag = old
            tagtext = "%08x" % c1.tag
            files = {"s.tl": text}
        elif kind == "explicit-zero":
            (d1, c1) = r.pick(ctors)
            old = (c1.tag, c1.explicit)
            c1.tag, c1.explicit = 0, True
            text = s.text()
            c1.tag, c1.explicit = old
            tagtext = "tag 0|#00000000|magic should not be 0"
            files = {"s.tl": text}
        elif kind == "implicit-zero":
            text = base.replace("---functions---", "zeroTag xdqlo5qc:int = ZeroTag;\n---functions---")
            tagtext = "tag 0|#00000000"
            files = {"s.tl": text}
        elif kind == "tl2-magic-vs-tl1":
            explicit = [(dcl, c) for dcl, c in ctors if c.explicit]
            if not explicit:
                continue
            (d1, c1) = r.pick(explicit)
            tagtext = "%08x" % c1.tag
            files = {"s.tl": base, "t.tl2": "zq.fn#%08x x:int32 => int32;\n" % c1.tag}
        elif kind == "bool-bool":
            tagtext = "bc799737"
            files = {"s.tl": base.replace("boolTrue#997275b5", "boolTrue#bc799737")}
        elif kind == "bool-zero":
            tagtext = "tag 0|#00000000|magic should not be 0"
            files = {"s.tl": base.replace("boolFalse#bc799737", "boolFalse#00000000")}
        elif kind == "wrapper-constructor":
            (d1, c1) = r.pick(ctors)
            old = (c1.tag, c1.explicit)
            c1.tag, c1.explicit = 0xa8509bda, True
            text = s.text()
            c1.tag, c1.explicit = old
            tagtext = "a8509bda"
            files = {"s.tl": text}
        elif kind == "wrapper-wrapper":
            tagtext = "a8509bda"
            files = {"s.tl": base.replace("long#22076cba", "long#a8509bda")}
        elif kind == "wrapper-tl2-magic":
            tagtext = "b5286e24"
            files = {"s.tl": base, "t.tl2": "zq.fn#b5286e24 x:int32 => int32;\n"}
        elif kind == "tl2-type-magic-zero":
            tagtext = "magic should not be 0|tag 0|#00000000"
            shape = r.pick(["zq.st#00000000 = x:int32 y:string;\n", "zq.un#00000000 = | a x:int32 | b;\n", "zq.al#00000000 <=> []int32;\n", "zq.ge#00000000<t:Type> = v:t;\n", "st#00000000 = x:int32;\n"])
            files = {"s.tl": base, "t.tl2": shape}
        elif kind == "tl2-type-magic-vs-tl1":
            explicit = [(dcl, c) for dcl, c in ctors if c.explicit]
            if not explicit:
                continue
            (d1, c1) = r.pick(explicit)
            tagtext = "%08x" % c1.tag
            files = {"s.tl": base, "t.tl2": "zq.st#%08x = x:int32;\n" % c1.tag}
        elif kind == "tl2-type-magic-twice":
            t = (r.next() & 0xffffffff) | 1
            tagtext = "%08x" % t
            files = {"s.tl": base, "t.tl2": "zq.st#%08x = x:int32;\nzq.other#%08x = y:string;\n" % (t, t)}
        elif kind == "tl2-magic-zero":
            tagtext = "magic should not be 0|tag 0|#00000000"
            files = {"s.tl": base, "t.tl2": "zq.fn#00000000 x:int32 => int32;\n"}
        else:
            t = (r.next() & 0xffffffff) | 1
            tagtext = "%08x" % t
            files = {"s.tl": base, "t.tl2": "zq.st#%08x = x:int32;\nzq.fn#%08x x:int32 => int32;\n" % (t, t)}
        paths = []
        for fn, txt in files.items():
            p = os.path.join(d, fn)
            open(p, "w").write(txt)
            paths.append(p)
        gens = ["tl2gen"] if any(f.endswith(".tl2") for f in files) else ["tl2gen", "tlgen"]
        for which in gens:
            rr, text = lint(which, paths)
            ctx.count()
            stats["collision_cases_" + which] = stats.get("collision_cases_" + which, 0) + 1
            sig = {"oracle": "tag-collision", "schema": kind, "config": which}
            if rr.timed_out or core.PANIC_PATTERNS.search(text) or rr.rc not in (0, 1):
                ctx.violation(dict(sig, **{"class": "panic"}), "%s crashed on a schema with a %s tag collision:\n%s" % (which, kind, text[-800:]), files)
            elif rr.rc == 0:
                ctx.violation(dict(sig, **{"class": "collision-accepted"}), "%s accepted a schema with a %s tag collision (tag %s)" % (which, kind, tagtext), files)
            elif not re.search(tagtext, text):
                ctx.violation(dict(sig, **{"class": "message-does-not-name-tag"}), "%s rejected a %s collision but the message does not name the tag (%s):\n%s" % (which, kind, tagtext, text[-500:]), files)
            else:
                stats["rejected_with_tag_in_message"] = stats.get("rejected_with_tag_in_message", 0) + 1
                ctx.distinct("%s/%s/%d" % (kind, which, i % 7))
        if i < 2:
            ctx.sample({"kind": kind, "tag": tagtext, "files": {k: v[-300:] for k, v in files.items()}})
    # accepted schemas: pairwise distinct non-zero tags (checked in-package over the parsed text of accepted repository and random schemas)
    cdir, ncases = schemaout.prepare(ctx, True, False, 60 if thorough else 10, "c24acc")
    rr, ev = inpkg.run_inpkg(ctx, "vtlo", "internal/tlast/vtlo", "^TestVerifSchemaOutputs$", env={"VERIF_CASES_DIR": cdir}, timeout=1200)
    sm = inpkg.absorb(ctx, rr, [e for e in ev if e.get("t") != "violation" or e.get("oracle") == "tags"], "accepted schemas")
    t = inpkg.merge_counters(ctx, sm)
    ctx.cov.setdefault("counters", {}).update(stats)
    ctx.cov["rule"] = ("collision mode on SchemaGen schemas accepted by both generators: two constructors forced to one explicit tag; an explicit tag forced to equal another "
                       "constructor's implicit (CRC32, computed by the harness) tag; a function tag equal to a constructor tag; explicit #00000000; an implicit zero tag "
                       "('zeroTag xdqlo5qc:int = ZeroTag;' hashes to 0); TL2 magic equal to a TL1 tag, zero, or used twice. tl2gen --language=lint and tlgen linter mode: "
                       "exit 1 with a message naming the tag, no panic. Accepted repository and random schemas: pairwise distinct non-zero effective tags over the "
                       "parsed text. distinct_nontrivial = distinct (collision kind, generator, bucket).")
    ctx.require("collision cases (tl2gen)", stats.get("collision_cases_tl2gen", 0), n * 6 // 10)
    ctx.require("collision cases (tlgen)", stats.get("collision_cases_tlgen", 0), n // 4)
    ctx.require("tags of accepted schemas checked", t.get("tags_checked", 0), 500)
