"""C25 canonical schema listing is faithful to the schema (engine C + in-package parser)."""
from .. import schemaout


def run(ctx):
    thorough = ctx.tier == "thorough"
    t, n = schemaout.run(ctx, True, False, 120 if thorough else 12, "c25")
    ctx.cov["rule"] = ("tl2gen --language=canonical on every repository schema set and N random SchemaGen schemas; every line is cut at its trailing '// file' comment, "
                       "terminated with ';' and parsed with the TL1 parser (functions in a functions section): one line per non-primitive combinator (+5 primitives), "
                       "each schema combinator exactly once; name, explicit tag == effective tag of the input combinator (explicit or CRC32), template arguments, "
                       "annotations; fields (names, masks, repetitions with scale, types with effective bareness and arithmetic by value) and result types are compared "
                       "for combinators without nested type applications (the canonical form flattens those, so only names/tags/arity are compared there). "
                       "distinct_nontrivial = distinct (schema, combinator) fully compared.")
    ctx.require("schema sets", n, 10)
    ctx.require("canonical lines", t.get("canonical_lines", 0), 500)
    ctx.require("lines fully compared", t.get("canonical_lines_fully_compared", 0), 250)
