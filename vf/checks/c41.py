"""C41 ordered tree map and circular slice match reference containers (engine I)."""
from .. import inpkg


def run(ctx):
    thorough = ctx.tier == "thorough"
    ctx.cov["rule"] = ("TreeMap: all operation sequences of length <= 5 (thorough 6) over {Set,Delete}x4 keys + GetPtr-update (10 ops) enumerated completely; "
                       "random histories with ascending/descending/zig-zag/random/delete-heavy/sliding-window key patterns up to 20k ops. After every step: "
                       "package validate() (order), Get on touched key/neighbours, Front/Back/Empty/LenMoreThan1 vs a sorted map model, in-order keys == "
                       "model keys, allocator live nodes == keys, AVL shape recomputed from the real tree (sibling real heights differ <= 2, height <= "
                       "1.44*log2(n+2)+2). CircularSlice: all sequences of length <= 6 (thorough 7) over 8 ops from an empty and from a wrapped queue; "
                       "random histories <= 420 ops with PushBack/PopFront/Clear/Swap/DeepAssign/Reserve/IndexRef-write/out-of-range/empty-Front; after "
                       "every step Len/Cap/Slices/Index/IndexRef/Front vs a slice model for both the receiver and the swap partner, no stale pointers in "
                       "dead cells. distinct_nontrivial = distinct random history shapes.")
    env = {"VERIF_EXLEN": 6 if thorough else 5, "VERIF_N": 3000 if thorough else 200, "VERIF_LONG": 20000 if thorough else 6000}
    r, ev = inpkg.run_inpkg(ctx, "inpkg/algo", "internal/vkgo/pkg/algo", "^TestVerifC41Tree$", env=env, timeout=3000)
    sm = inpkg.absorb(ctx, r, ev, "TreeMap")
    t = inpkg.merge_counters(ctx, sm, "tree_")
    env2 = {"VERIF_EXLEN": 7 if thorough else 6, "VERIF_N": 60000 if thorough else 3000}
    r, ev = inpkg.run_inpkg(ctx, "inpkg/algo", "internal/vkgo/pkg/algo", "^TestVerifC41Circ$", env=env2, timeout=3000)
    sm = inpkg.absorb(ctx, r, ev, "CircularSlice")
    t2 = inpkg.merge_counters(ctx, sm, "circ_")
    ctx.cov["exhaustive"] = True
    ctx.count(t.get("tree_tree_steps", 0) + t2.get("circ_circular_steps", 0))
    ctx.require("tree exhaustive histories", t.get("tree_exhaustive_histories", 0), 10 ** env["VERIF_EXLEN"])
    ctx.require("tree random histories", t.get("tree_random_histories", 0), env["VERIF_N"])
    ctx.require("circular exhaustive histories", t2.get("circ_exhaustive_histories", 0), 2 * 8 ** env2["VERIF_EXLEN"])
    ctx.require("circular random histories", t2.get("circ_random_histories", 0), env2["VERIF_N"])
