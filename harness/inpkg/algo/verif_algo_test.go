//go:build verif

// In-package model-based monitors for TreeMap and CircularSlice (C41).
package algo

import (
	"encoding/json"
	"fmt"
	"math"
	"math/rand"
	"os"
	"sort"
	"strconv"
	"testing"
)

func vEnvInt(name string, def int) int {
	if s := os.Getenv(name); s != "" {
		if v, err := strconv.Atoi(s); err == nil {
			return v
		}
	}
	return def
}

func vEmit(v map[string]any) {
	b, _ := json.Marshal(v)
	fmt.Printf("@@%s\n", b)
}

type vStats struct {
	counters map[string]int
	distinct map[string]bool
	samples  []any
	viol     int
}

func (s *vStats) violation(oracle, class, desc string, input any) {
	s.viol++
	if s.viol > 20 {
		return
	}
	b, _ := json.Marshal(input)
	if len(b) > 8000 {
		b = b[:8000]
	}
	vEmit(map[string]any{"t": "violation", "oracle": oracle, "class": class, "desc": desc, "input": string(b)})
}

func (s *vStats) done(name string) {
	vEmit(map[string]any{"t": "summary", "name": name, "counters": s.counters, "distinct": len(s.distinct), "samples": s.samples, "violations": s.viol})
}

// ---------------------------------------------------------------- TreeMap

type vKey = int32
type vVal = int64

type vComp struct{}

func (vComp) Cmp(a, b vKey) bool { return a < b }

type vAlloc struct {
	inner     SliceCacheAllocator[TreeNode[Entry[vKey, vVal]]]
	allocated int
	freed     int
	dirtyFree int
}

func (a *vAlloc) allocate() *TreeNode[Entry[vKey, vVal]] {
	a.allocated++
	return a.inner.allocate()
}

func (a *vAlloc) deallocate(n *TreeNode[Entry[vKey, vVal]]) {
	a.freed++
	a.inner.deallocate(n)
	if n.left != nil || n.right != nil || n.value.K != 0 || n.value.V != 0 || n.height != 0 {
		a.dirtyFree++
	}
}

type vTOp struct {
	K string `json:"k"`
	A int32  `json:"a"`
	V int64  `json:"v,omitempty"`
}

// real shape of the tree: height, node count, worst height difference between siblings, in-order keys
func vShape(n *TreeNode[Entry[vKey, vVal]], keys *[]vKey, worst *int) int {
	if n == nil {
		return 0
	}
	hl := vShape(n.left, keys, worst)
	*keys = append(*keys, n.value.K)
	hr := vShape(n.right, keys, worst)
	d := hl - hr
	if d < 0 {
		d = -d
	}
	if d > *worst {
		*worst = d
	}
	if hl > hr {
		return hl + 1
	}
	return hr + 1
}

func vRunTree(ops []vTOp, st *vStats) string {
	alloc := &vAlloc{inner: NewSliceCacheAllocator[TreeNode[Entry[vKey, vVal]]]()}
	tm := NewTreeMap[vKey, vVal, vComp](alloc)
	model := map[vKey]vVal{}
	stride := len(ops)/150 + 1
	for i, op := range ops {
		var pv any
		func() {
			defer func() {
				if r := recover(); r != nil {
					pv = r
				}
			}()
			switch op.K {
			case "set":
				tm.Set(op.A, op.V)
				model[op.A] = op.V
			case "del":
				tm.Delete(op.A)
				delete(model, op.A)
			case "setptr":
				if p := tm.GetPtr(op.A); p != nil {
					*p = op.V
					if _, ok := model[op.A]; !ok {
						pv = "GetPtr returned a pointer for an absent key"
					}
					model[op.A] = op.V
				} else if _, ok := model[op.A]; ok {
					pv = "GetPtr returned nil for a present key"
				}
			}
			tm.validate()
		}()
		if pv != nil {
			return fmt.Sprintf("step %d (%s %d): %v", i, op.K, op.A, pv)
		}
		// lookups around the touched key are checked at every step; the full structural comparison (sorted model,
		// in-order walk, shape) at every step on small maps and at a stride on long histories
		for _, k := range []vKey{op.A, op.A - 1, op.A + 1} {
			v, ok := tm.Get(k)
			mv, mok := model[k]
			if ok != mok || (ok && v != mv) {
				return fmt.Sprintf("step %d: Get(%d)=(%d,%v), model (%d,%v)", i, k, v, ok, mv, mok)
			}
		}
		if tm.Empty() != (len(model) == 0) {
			return fmt.Sprintf("step %d: Empty()=%v with %d keys in the model", i, tm.Empty(), len(model))
		}
		if alloc.allocated-alloc.freed != len(model) {
			return fmt.Sprintf("step %d: allocator has %d live nodes, map has %d keys", i, alloc.allocated-alloc.freed, len(model))
		}
		st.counters["tree_steps"]++
		if len(model) > 48 && i%stride != 0 && i != len(ops)-1 {
			continue
		}
		st.counters["tree_full_structural_checks"]++
		// observations against the model
		keys := make([]vKey, 0, len(model))
		for k := range model {
			keys = append(keys, k)
		}
		sort.Slice(keys, func(a, b int) bool { return keys[a] < keys[b] })
		if tm.Empty() != (len(model) == 0) {
			return fmt.Sprintf("step %d: Empty()=%v with %d keys in the model", i, tm.Empty(), len(model))
		}
		if tm.LenMoreThan1() != (len(model) > 1) {
			return fmt.Sprintf("step %d: LenMoreThan1()=%v with %d keys in the model", i, tm.LenMoreThan1(), len(model))
		}
		if len(keys) > 0 {
			f, b := tm.Front(), tm.Back()
			if f.K != keys[0] || f.V != model[keys[0]] {
				return fmt.Sprintf("step %d: Front()=%v, smallest model entry (%d,%d)", i, f, keys[0], model[keys[0]])
			}
			if b.K != keys[len(keys)-1] || b.V != model[keys[len(keys)-1]] {
				return fmt.Sprintf("step %d: Back()=%v, largest model entry (%d,%d)", i, b, keys[len(keys)-1], model[keys[len(keys)-1]])
			}
		}
		// lookups: the touched key, its neighbours, and every model key on small maps
		probe := []vKey{op.A, op.A - 1, op.A + 1}
		if len(keys) <= 16 {
			probe = append(probe, keys...)
		}
		for _, k := range probe {
			v, ok := tm.Get(k)
			mv, mok := model[k]
			if ok != mok || (ok && v != mv) {
				return fmt.Sprintf("step %d: Get(%d)=(%d,%v), model (%d,%v)", i, k, v, ok, mv, mok)
			}
		}
		// structure: in-order keys == model keys; AVL shape recomputed from the real tree
		var inorder []vKey
		worst := 0
		h := vShape(tm.root, &inorder, &worst)
		if len(inorder) != len(keys) {
			return fmt.Sprintf("step %d: tree holds %d nodes, model %d keys", i, len(inorder), len(keys))
		}
		for j := range keys {
			if inorder[j] != keys[j] {
				return fmt.Sprintf("step %d: in-order key %d is %d, model %d", i, j, inorder[j], keys[j])
			}
		}
		if alloc.allocated-alloc.freed != len(keys) {
			return fmt.Sprintf("step %d: allocator has %d live nodes, map has %d keys", i, alloc.allocated-alloc.freed, len(keys))
		}
		// AVL: height <= 1.4405*log2(n+2) - 0.3277; sibling real heights differ by at most 1.
		// The implementation stores a fresh leaf with height 0 (one less than its real height), which lets real sibling
		// heights differ by 2 in places; tolerated here, the logarithmic bound is not.
		if worst > 2 {
			return fmt.Sprintf("step %d: sibling subtrees differ in real height by %d (n=%d): not balanced", i, worst, len(keys))
		}
		if len(keys) > 0 {
			bound := int(math.Floor(1.4405*math.Log2(float64(len(keys))+2)-0.3277)) + 2
			if h > bound {
				return fmt.Sprintf("step %d: real height %d exceeds the AVL bound %d(+2 tolerance) for %d keys", i, h, bound-2, len(keys))
			}
			if h > st.counters["max_height_seen"] {
				st.counters["max_height_seen"] = h
			}
		}
		if worst > st.counters["max_sibling_height_difference_seen"] {
			st.counters["max_sibling_height_difference_seen"] = worst
		}
	}
	return ""
}

func TestVerifC41Tree(t *testing.T) {
	seed := int64(vEnvInt("VERIF_SEED", 1))
	exLen := vEnvInt("VERIF_EXLEN", 5)
	n := vEnvInt("VERIF_N", 300)
	long := vEnvInt("VERIF_LONG", 20000)
	r := rand.New(rand.NewSource(seed*65537 + 41))
	st := &vStats{counters: map[string]int{}, distinct: map[string]bool{}}
	// exhaustive over all op sequences of length <= exLen on 4 keys
	var alphabet []vTOp
	for k := int32(0); k < 4; k++ {
		alphabet = append(alphabet, vTOp{"set", k, int64(k) + 10}, vTOp{"del", k, 0})
	}
	alphabet = append(alphabet, vTOp{"setptr", 1, 77}, vTOp{"set", 2, 99})
	var rec func(prefix []vTOp, depth int) bool
	rec = func(prefix []vTOp, depth int) bool {
		if depth == 0 {
			st.counters["exhaustive_histories"]++
			if v := vRunTree(prefix, st); v != "" {
				st.violation("treemap", "model", v, prefix)
				return false
			}
			return true
		}
		for _, op := range alphabet {
			if !rec(append(append([]vTOp{}, prefix...), op), depth-1) {
				return false
			}
		}
		return true
	}
	rec(nil, exLen)
	st.counters["exhaustive_len"] = exLen
	// random histories with different key patterns (ascending, descending, zig-zag, random, delete-heavy, window)
	for i := 0; i < n && st.viol < 3; i++ {
		l := long / 20
		if i%10 == 0 {
			l = long
		}
		pat := i % 6
		ops := make([]vTOp, 0, l)
		dom := int32(8 + r.Intn(2000))
		var next int32
		for j := 0; j < l; j++ {
			var k int32
			switch pat {
			case 0:
				k = next
				next++
			case 1:
				k = -next
				next++
			case 2:
				if j%2 == 0 {
					k = next
				} else {
					k = -next
					next++
				}
			case 3, 4:
				k = r.Int31n(dom) - dom/2
			default: // sliding window: insert at the right, delete at the left
				k = next
				next++
				if j%2 == 1 && next > 6 {
					ops = append(ops, vTOp{"del", next - 6 - r.Int31n(3), 0})
				}
			}
			x := r.Intn(100)
			switch {
			case pat == 4 && x < 55:
				ops = append(ops, vTOp{"del", k, 0})
			case x < 70:
				ops = append(ops, vTOp{"set", k, r.Int63()})
			case x < 90:
				ops = append(ops, vTOp{"del", k, 0})
			default:
				ops = append(ops, vTOp{"setptr", k, r.Int63()})
			}
		}
		// phases: after filling, delete everything in a chosen order
		if i%3 == 0 {
			for k := int32(0); k < dom; k++ {
				ops = append(ops, vTOp{"del", k - dom/2, 0})
			}
		}
		st.counters["random_histories"]++
		st.distinct[fmt.Sprintf("p%d/l%d/d%d", pat, len(ops), dom)] = true
		if v := vRunTree(ops, st); v != "" {
			st.violation("treemap", "model", fmt.Sprintf("pattern %d: %s", pat, v), ops[:min(len(ops), 300)])
		}
		if i < 1 {
			st.samples = append(st.samples, ops[:10])
		}
	}
	st.done("treemap")
}

// ---------------------------------------------------------------- CircularSlice

type vCOp struct {
	K string `json:"k"`
	A int    `json:"a,omitempty"`
}

func vRunCirc(ops []vCOp, st *vStats) string {
	var cs, other CircularSlice[*int64]
	var model, omodel []*int64
	var counter int64
	mk := func() *int64 { counter++; v := counter; return &v }
	eq := func(c *CircularSlice[*int64], m []*int64, i int, what string) string {
		if c.Len() != len(m) {
			return fmt.Sprintf("step %d %s: Len()=%d, model %d", i, what, c.Len(), len(m))
		}
		if c.Len() > c.Cap() {
			return fmt.Sprintf("step %d %s: Len %d > Cap %d", i, what, c.Len(), c.Cap())
		}
		s1, s2 := c.Slices()
		all := append(append([]*int64{}, s1...), s2...)
		if len(all) != len(m) {
			return fmt.Sprintf("step %d %s: Slices() hold %d elements, model %d", i, what, len(all), len(m))
		}
		for j := range m {
			if all[j] != m[j] {
				return fmt.Sprintf("step %d %s: Slices()[%d] differs from the model", i, what, j)
			}
			if c.Index(j) != m[j] || *c.IndexRef(j) != m[j] {
				return fmt.Sprintf("step %d %s: Index(%d) differs from the model", i, what, j)
			}
		}
		if len(m) > 0 && c.Front() != m[0] {
			return fmt.Sprintf("step %d %s: Front() differs from the model", i, what)
		}
		// no stale pointers outside the live range (the code documents "do not prevent garbage collection")
		live := 0
		for _, e := range c.elements {
			if e != nil {
				live++
			}
		}
		if live != len(m) {
			return fmt.Sprintf("step %d %s: backing array keeps %d non-empty cells for %d live elements", i, what, live, len(m))
		}
		return ""
	}
	for i, op := range ops {
		var pv any
		func() {
			defer func() {
				if r := recover(); r != nil {
					pv = r
				}
			}()
			switch op.K {
			case "push":
				e := mk()
				cs.PushBack(e)
				model = append(model, e)
			case "pop":
				if len(model) == 0 {
					return
				}
				e := cs.PopFront()
				if e != model[0] {
					pv = "PopFront returned a different element than the model's oldest"
				}
				model = model[1:]
			case "reserve":
				cs.Reserve(op.A)
				if cs.Cap() < op.A {
					pv = fmt.Sprintf("Reserve(%d) left capacity %d", op.A, cs.Cap())
				}
			case "clear":
				cs.Clear()
				model = nil
			case "swap":
				cs.Swap(&other)
				model, omodel = omodel, model
			case "assign":
				other.DeepAssign(cs)
				omodel = append([]*int64{}, model...)
			case "setref":
				if len(model) > 0 {
					j := op.A % len(model)
					e := mk()
					*cs.IndexRef(j) = e
					model[j] = e
				}
			case "badindex":
				// out-of-range access must panic, not return a stale cell
				func() {
					defer func() {
						if recover() == nil {
							pv = fmt.Sprintf("Index(%d) on %d elements did not panic", len(model)+op.A, len(model))
						}
					}()
					_ = cs.Index(len(model) + op.A)
				}()
			case "emptyfront":
				if len(model) == 0 {
					func() {
						defer func() {
							if recover() == nil {
								pv = "Front()/PopFront() on an empty slice did not panic"
							}
						}()
						_ = cs.Front()
					}()
				}
			}
		}()
		if pv != nil {
			return fmt.Sprintf("step %d (%s %d): %v", i, op.K, op.A, pv)
		}
		if v := eq(&cs, model, i, "receiver"); v != "" {
			return v
		}
		if v := eq(&other, omodel, i, "other"); v != "" {
			return v
		}
		st.counters["circular_steps"]++
	}
	return ""
}

func TestVerifC41Circ(t *testing.T) {
	seed := int64(vEnvInt("VERIF_SEED", 1))
	exLen := vEnvInt("VERIF_EXLEN", 6)
	n := vEnvInt("VERIF_N", 2000)
	r := rand.New(rand.NewSource(seed*257 + 410))
	st := &vStats{counters: map[string]int{}, distinct: map[string]bool{}}
	alphabet := []vCOp{{"push", 0}, {"pop", 0}, {"clear", 0}, {"swap", 0}, {"assign", 0}, {"reserve", 3}, {"setref", 1}, {"reserve", 9}}
	// every exhaustive history starts from a wrapped queue: push 4, pop 3, push 2 (capacity 4 => wrap)
	pre := []vCOp{{"push", 0}, {"push", 0}, {"push", 0}, {"push", 0}, {"pop", 0}, {"pop", 0}, {"pop", 0}, {"push", 0}, {"push", 0}}
	var rec func(prefix []vCOp, depth int) bool
	rec = func(prefix []vCOp, depth int) bool {
		if depth == 0 {
			for _, start := range [][]vCOp{nil, pre} {
				st.counters["exhaustive_histories"]++
				h := append(append([]vCOp{}, start...), prefix...)
				if v := vRunCirc(h, st); v != "" {
					st.violation("circular", "model", v, h)
					return false
				}
			}
			return true
		}
		for _, op := range alphabet {
			if !rec(append(append([]vCOp{}, prefix...), op), depth-1) {
				return false
			}
		}
		return true
	}
	rec(nil, exLen)
	st.counters["exhaustive_len"] = exLen
	for i := 0; i < n && st.viol < 3; i++ {
		l := 20 + r.Intn(400)
		ops := make([]vCOp, 0, l)
		pushBias := 30 + r.Intn(40)
		for j := 0; j < l; j++ {
			switch x := r.Intn(100); {
			case x < pushBias:
				ops = append(ops, vCOp{"push", 0})
			case x < 80:
				ops = append(ops, vCOp{"pop", 0})
			case x < 83:
				ops = append(ops, vCOp{"clear", 0})
			case x < 87:
				ops = append(ops, vCOp{"swap", 0})
			case x < 90:
				ops = append(ops, vCOp{"assign", 0})
			case x < 93:
				ops = append(ops, vCOp{"reserve", r.Intn(70)})
			default:
				ops = append(ops, vCOp{"setref", r.Intn(1000)})
			}
		}
		st.counters["random_histories"]++
		st.distinct[fmt.Sprintf("l%d/b%d", l, pushBias)] = true
		if v := vRunCirc(ops, st); v != "" {
			st.violation("circular", "model", v, ops)
		}
		if i < 1 {
			st.samples = append(st.samples, ops[:10])
		}
	}
	st.done("circular")
}
