//go:build verif

// In-package monitors for internal/tlast (injected by /verif into a scratch copy).
// Drivers for C19-C23.  Protocol: lines starting with "@@" carry one JSON object.
package tlast

import (
	"bytes"
	"encoding/json"
	"fmt"
	"hash/crc32"
	"math/rand"
	"os"
	"path/filepath"
	"reflect"
	"sort"
	"strconv"
	"strings"
	"testing"
)

// ---------------------------------------------------------------- protocol helpers

func vEnvInt(name string, def int) int {
	if s := os.Getenv(name); s != "" {
		if v, err := strconv.Atoi(s); err == nil {
			return v
		}
	}
	return def
}

func vEmit(v map[string]any) {
	b, _ := json.Marshal(v)
	fmt.Printf("@@%s\n", b)
}

type vStats struct {
	counters map[string]int
	distinct map[string]bool
	samples  []any
	viol     int
}

func newVStats() *vStats {
	return &vStats{counters: map[string]int{}, distinct: map[string]bool{}}
}

func (s *vStats) violation(oracle, class, desc, input string) {
	s.viol++
	if s.viol > 40 {
		return
	}
	if len(input) > 6000 {
		input = input[:6000]
	}
	vEmit(map[string]any{"t": "violation", "oracle": oracle, "class": class, "desc": desc, "input": input})
}

func (s *vStats) sample(v any) {
	if len(s.samples) < 6 {
		s.samples = append(s.samples, v)
	}
}

func (s *vStats) done(name string) {
	vEmit(map[string]any{"t": "summary", "name": name, "counters": s.counters, "distinct": len(s.distinct), "samples": s.samples, "violations": s.viol})
}

// ---------------------------------------------------------------- corpus + mutation

func vLoadCorpus(ext string) []string {
	var res []string
	for _, g := range []string{"../tlcodegen/test/tls/*" + ext, "../tlcodegen/test/tls/*/*" + ext, "../tlcodegen/test/tls/*/*/*" + ext, "../../cmd/tl2client/*" + ext, "../../pkg/rpc/*" + ext, "./*" + ext} {
		m, _ := filepath.Glob(g)
		sort.Strings(m)
		for _, f := range m {
			b, err := os.ReadFile(f)
			if err == nil {
				res = append(res, string(b))
			}
		}
	}
	return res
}

var vToks = []string{" ", "\n", ";", "=", "=>", "<=>", "{", "}", "[", "]", "(", ")", "<", ">", ":", "?", "#", "%", "*", "+", "!", "|", "_", ".", ",", "@read ", "@any", "---types---", "---functions---", "//x\n", "/*", "*/", "int", "Foo", "a.b", "a.B", "#12345678", "#1234567", "#123456789", "3", "Type", "t:Type", "n:#", "\r\n", "\r", "\t", "\xff", "\x00", "\xc3", "x.0?", "x.99999999999?", "99999999999", "4294967295", "4294967296", "_x", "tlgen:", "\"", "'", "-", "--", "---", "\\", " ", "\xef\xbb\xbf", "\u00a0", "\x0b", "\x0c", "\x1a", "\x7f", "\xe2\x80", "\xf0\x9f\x98\x80", "\u2029"}

func vMutate(r *rand.Rand, s string) string {
	b := []byte(s)
	n := 1 + r.Intn(4)
	for i := 0; i < n; i++ {
		if len(b) == 0 {
			b = append(b, vToks[r.Intn(len(vToks))]...)
			continue
		}
		p := r.Intn(len(b))
		if r.Intn(25) == 0 {
			// something unusual at the very start of the text (byte order mark, stray control byte ...)
			tk := vToks[len(vToks)-9+r.Intn(9)]
			b = append([]byte(tk), b...)
			continue
		}
		switch r.Intn(7) {
		case 0:
			e := p + 1 + r.Intn(8)
			if e > len(b) {
				e = len(b)
			}
			b = append(b[:p:p], b[e:]...)
		case 1:
			tk := vToks[r.Intn(len(vToks))]
			b = append(b[:p:p], append([]byte(tk), b[p:]...)...)
		case 2:
			b[p] = byte(r.Intn(256))
		case 3:
			b = b[:p]
		case 4:
			q := r.Intn(len(b))
			if p > q {
				p, q = q, p
			}
			if q-p > 200 {
				q = p + 200
			}
			b = append(b[:q:q], append(append([]byte{}, b[p:q]...), b[q:]...)...)
		case 5:
			b = b[p:]
		case 6:
			tk := vToks[r.Intn(len(vToks))]
			e := p + len(tk)
			if e > len(b) {
				e = len(b)
			}
			b = append(b[:p:p], append([]byte(tk), b[e:]...)...)
		}
	}
	return string(b)
}

func vTokenSoup(r *rand.Rand) string {
	var sb strings.Builder
	n := 1 + r.Intn(40)
	for i := 0; i < n; i++ {
		sb.WriteString(vToks[r.Intn(len(vToks))])
		if r.Intn(3) == 0 {
			sb.WriteByte(' ')
		}
	}
	return sb.String()
}

const vAlphabet = " \n;=:#%?.[]()<>{}abzAZ019_@|!*+,/"

func vRandomBytes(r *rand.Rand) string {
	b := make([]byte, r.Intn(64))
	for i := range b {
		if r.Intn(4) == 0 {
			b[i] = byte(r.Intn(256))
		} else {
			b[i] = vAlphabet[r.Intn(len(vAlphabet))]
		}
	}
	return string(b)
}

// small-alphabet soups placed in one syntactic context each, so that short token combinations
// (e.g. "1+(x", "(%", "<,", "[]") are hit with high probability in every context
var vSoupAlpha = []string{"1", "2", "+", "(", ")", "x", "X", "*", "[", "]", " ", "%", "<", ">", ",", "#", "n", ".", "?", "!", ":", "0"}
var vSoupAlpha2 = []string{"1", "[", "]", "<", ">", ",", "x", "X", " ", ":", "?", "|", "_", ".", "#", "=", "=>", "<=>", "a", "int32"}

func vContextSoup(r *rand.Rand, tl2 bool) string {
	alpha := vSoupAlpha
	if tl2 {
		alpha = vSoupAlpha2
	}
	k := 1 + r.Intn(7)
	if r.Intn(2) == 0 {
		alpha = alpha[:10]
	}
	var sb strings.Builder
	for i := 0; i < k; i++ {
		sb.WriteString(alpha[r.Intn(len(alpha))])
	}
	soup := sb.String()
	if tl2 {
		switch r.Intn(7) {
		case 0:
			return "a = x:" + soup + ";"
		case 1:
			return "a = x:v<" + soup + ">;"
		case 2:
			return "a<" + soup + "> = x:int32;"
		case 3:
			return "a = " + soup + ";"
		case 4:
			return "f#00000001 x:int32 => " + soup + ";"
		case 5:
			return "a <=> " + soup + ";"
		default:
			return "a = | b " + soup + " | c;"
		}
	}
	switch r.Intn(9) {
	case 0:
		return "a x:(foo " + soup + ") = A;"
	case 1:
		return "a n:# x:" + soup + "*[int] = A;"
	case 2:
		return "a x:" + soup + " = A;"
	case 3:
		return "a n:# x:n*[" + soup + "] = A;"
	case 4:
		return "a {" + soup + "} = A;"
	case 5:
		return "a n:# x:n." + soup + " = A;"
	case 6:
		return "---functions---\nf x:int = " + soup + ";"
	case 7:
		return "a x:foo<" + soup + "> = A;"
	default:
		return "a = A " + soup + ";"
	}
}

func vPathological(r *rand.Rand, tl2 bool) string {
	n := 1 + r.Intn(3000)
	switch r.Intn(6) {
	case 0:
		return "a x:" + strings.Repeat("(", n) + "b" + strings.Repeat(")", r.Intn(n+1)) + " = A;"
	case 1:
		return "a x:" + strings.Repeat("[", n) + "int" + strings.Repeat("]", r.Intn(n+1)) + " = A;"
	case 2:
		return "a x:" + strings.Repeat("v<", n) + "int" + strings.Repeat(">", r.Intn(n+1)) + " = A;"
	case 3:
		return "a = " + strings.Repeat("x:[]", n) + "int;"
	case 4:
		return "a x:(" + strings.Repeat("1+", n) + "1)*[int] = A;"
	default:
		return strings.Repeat("/", n) + "\n" + strings.Repeat("a = A;", r.Intn(50))
	}
}

// ---------------------------------------------------------------- C19 / C20

func vAsPE(err error) *ParseError {
	for err != nil {
		if p, ok := err.(*ParseError); ok {
			return p
		}
		u, ok := err.(interface{ Unwrap() error })
		if !ok {
			return nil
		}
		err = u.Unwrap()
	}
	return nil
}

// independent position facts of text at offset
func vPosFacts(text string, off int) (line, col, sol int) {
	line = 1
	for i := 0; i < off && i < len(text); i++ {
		if text[i] == '\n' {
			line++
			sol = i + 1
		}
	}
	return line, off - sol + 1, sol
}

func vCheckPos(st *vStats, which string, p Position, text string, file string, strict bool) string {
	if p.offset < 0 || p.offset > len(text) {
		return fmt.Sprintf("%s offset %d outside text of length %d", which, p.offset, len(text))
	}
	if p.fileContent != text {
		return fmt.Sprintf("%s refers to a different text (len %d) than the parsed one (len %d)", which, len(p.fileContent), len(text))
	}
	if p.startLineOffset < 0 || p.startLineOffset > p.offset {
		return fmt.Sprintf("%s startLineOffset %d not in [0, offset %d]", which, p.startLineOffset, p.offset)
	}
	if strict {
		line, col, sol := vPosFacts(text, p.offset)
		if p.line != line || p.column != col || p.startLineOffset != sol {
			return fmt.Sprintf("%s reports line %d col %d sol %d, text says line %d col %d sol %d (offset %d)", which, p.line, p.column, p.startLineOffset, line, col, sol, p.offset)
		}
	}
	return ""
}

func vTryParse(st *vStats, tl2 bool, s string, opts LexerOptions) {
	var pe *ParseError
	var err error
	accepted := false
	func() {
		defer func() {
			if r := recover(); r != nil {
				st.violation("parse-panic", "panic", fmt.Sprintf("parser panicked (tl2=%v opts=%+v): %v", tl2, opts, r), s)
			}
		}()
		if tl2 {
			_, err = ParseTL2File(s, "f.tl2", opts)
		} else {
			_, err = ParseTLFile(s, "f.tl", opts)
		}
		accepted = err == nil
		pe = vAsPE(err)
	}()
	if accepted {
		st.counters["accepted"]++
		st.distinct["accepted"] = true
		return
	}
	if err == nil {
		return // panicked, already reported
	}
	st.counters["rejected"]++
	if pe == nil {
		st.counters["rejected_without_position"]++
		return
	}
	st.counters["rejected_with_position"]++
	msg := pe.Err.Error()
	if i := strings.IndexAny(msg, ":\"#'0123456789"); i > 0 {
		msg = msg[:i]
	}
	tokKind := "eof"
	if pe.Pos.Begin.offset >= 0 && pe.Pos.Begin.offset < len(s) {
		c := s[pe.Pos.Begin.offset]
		switch {
		case letter(c):
			tokKind = "letter"
		case digit(c):
			tokKind = "digit"
		case c == ' ' || c == '\n' || c == '\t' || c == '\r':
			tokKind = "ws"
		default:
			tokKind = string(c)
		}
	}
	st.distinct[msg+"@"+tokKind] = true
	strict := !strings.Contains(s, "\r") // the lexer documents missing support for \r line endings
	for _, c := range []struct {
		n string
		p Position
	}{{"Begin", pe.Pos.Begin}, {"End", pe.Pos.End}} {
		// End is "Begin + len(token)" by construction (column arithmetic only), so line facts are
		// demanded of Begin only; End must still lie inside the text
		if d := vCheckPos(st, c.n, c.p, s, "", strict && c.n == "Begin"); d != "" {
			st.violation("position-range", "range", d+"; error: "+pe.Err.Error(), s)
			return
		}
	}
	// Outer is the start of the combinator or empty (lexer errors): only range-checked
	if pe.Pos.Outer.offset < 0 || pe.Pos.Outer.offset > len(s) {
		st.violation("position-range", "range", fmt.Sprintf("Outer offset %d outside text of length %d", pe.Pos.Outer.offset, len(s)), s)
		return
	}
	if pe.Pos.End.offset < pe.Pos.Begin.offset {
		st.violation("position-range", "order", fmt.Sprintf("End %d before Begin %d; error: %v", pe.Pos.End.offset, pe.Pos.Begin.offset, pe.Err), s)
		return
	}
	// printing must not panic and must not report a corrupted context
	func() {
		defer func() {
			if r := recover(); r != nil {
				st.violation("print-panic", "panic", fmt.Sprintf("ConsolePrint/PrintWarning panicked: %v; error: %v", r, pe.Err), s)
			}
		}()
		var bb bytes.Buffer
		pe.ConsolePrint(&bb, err, false)
		pe.PrintWarning(&bb, nil)
		_ = pe.Error()
		st.counters["printed"]++
		if bytes.Contains(bb.Bytes(), []byte("context corrupted")) {
			st.violation("print-corrupted", "corrupted", "printed error reports a corrupted context: "+pe.Err.Error(), s)
		}
	}()
}

func vParserTotality(t *testing.T, tl2 bool) {
	seed := int64(vEnvInt("VERIF_SEED", 1))
	n := vEnvInt("VERIF_N", 20000)
	r := rand.New(rand.NewSource(seed*7919 + 17))
	st := newVStats()
	ext := ".tl"
	if tl2 {
		ext = ".tl2"
	}
	corpus := vLoadCorpus(ext)
	if len(corpus) == 0 {
		t.Fatalf("no corpus")
	}
	st.counters["corpus_files"] = len(corpus)
	for i := 0; i < n; i++ {
		var s string
		kind := r.Intn(20)
		switch {
		case kind < 11:
			s = corpus[r.Intn(len(corpus))]
			if len(s) > 600 {
				p := r.Intn(len(s) - 600)
				s = s[p : p+600]
			}
			s = vMutate(r, s)
			st.counters["in_mutated_corpus"]++
		case kind < 14:
			if tl2 {
				s = vGenTL2File(r, 1+r.Intn(4)).render(r, true)
			} else {
				s = vGenTL1File(r, 1+r.Intn(4)).render(r, vRandStyle(r))
			}
			if r.Intn(4) != 0 {
				s = vMutate(r, s)
			}
			st.counters["in_generated"]++
		case kind < 15:
			s = vTokenSoup(r)
			st.counters["in_token_soup"]++
		case kind < 17:
			s = vContextSoup(r, tl2)
			st.counters["in_context_soup"]++
		case kind < 19:
			s = vRandomBytes(r)
			st.counters["in_random_bytes"]++
		default:
			if i%50 == 0 {
				s = vPathological(r, tl2)
				st.counters["in_pathological"]++
			} else {
				s = vTokenSoup(r)
				st.counters["in_token_soup"]++
			}
		}
		var opts LexerOptions
		if tl2 {
			opts = LexerOptions{LexerLanguage: TL2, AllowBuiltin: r.Intn(4) == 0, AllowDirty: r.Intn(4) == 0}
		} else {
			opts = LexerOptions{AllowBuiltin: r.Intn(3) == 0, AllowDirty: r.Intn(2) == 0}
		}
		vTryParse(st, tl2, s, opts)
		st.counters["inputs"]++
		if i%(n/5+1) == 0 {
			x := s
			if len(x) > 160 {
				x = x[:160]
			}
			st.sample(x)
		}
	}
	// whole repository files (accepted) and whole-file mutants
	for _, c := range corpus {
		opts := LexerOptions{AllowBuiltin: true, AllowDirty: true}
		if tl2 {
			opts = LexerOptions{LexerLanguage: TL2}
		}
		vTryParse(st, tl2, c, opts)
		for k := 0; k < 10; k++ {
			vTryParse(st, tl2, vMutate(r, c), opts)
			st.counters["inputs"]++
		}
	}
	st.done("parser")
}

func TestVerifC19(t *testing.T) { vParserTotality(t, false) }
func TestVerifC20(t *testing.T) { vParserTotality(t, true) }

// ---------------------------------------------------------------- TL1 syntactic generator (own mini AST)

type gName struct{ ns, name string }

func (n gName) String() string {
	if n.ns != "" {
		return n.ns + "." + n.name
	}
	return n.name
}

type gArg struct {
	isNum bool
	nums  []uint32
	t     *gType
}

type gType struct {
	name gName
	bare bool
	args []gArg
	nat  bool // '#'
}

type gRep struct {
	scaleKind int // 0 none, 1 name, 2 arith
	scale     string
	nums      []uint32
	fields    []gField
}

type gField struct {
	name    string
	mask    string
	bit     uint32
	hasMask bool
	excl    bool
	rep     *gRep
	t       *gType
}

type gTmpl struct {
	name  string
	isNat bool
}

type gComb struct {
	mods     []string
	name     gName
	tag      uint32
	explicit bool
	tmpl     []gTmpl
	fields   []gField
	isFunc   bool
	res      gType   // function result
	declName gName   // type decl
	declArgs []string // type decl args
}

type gFile struct {
	types []gComb
	funcs []gComb
}

var vLcNames = []string{"a", "b", "foo", "bar", "x", "y1", "item", "z_q", "val", "n", "m", "fields_mask", "k2", "long_name_here"}
var vUcNames = []string{"A", "B", "Foo", "Bar", "X", "Vector", "Tuple", "Maybe", "T", "Item", "Z_q", "Dictionary"}
var vNss = []string{"", "", "", "ns", "ab", "x1"}
var vMods = []string{"any", "read", "write", "readwrite", "internal", "kphp"}

func vNum(r *rand.Rand) uint32 {
	switch r.Intn(6) {
	case 0:
		return 0
	case 1:
		return uint32(r.Intn(40))
	case 2:
		return uint32(r.Intn(1 << 30))
	default:
		return uint32(r.Intn(10))
	}
}

func vArith(r *rand.Rand) []uint32 {
	n := 1
	if r.Intn(3) == 0 {
		n = 2 + r.Intn(3)
	}
	res := make([]uint32, n)
	for i := range res {
		res[i] = vNum(r)
	}
	return res
}

func vGenType(r *rand.Rand, depth int, vars []string) *gType {
	if r.Intn(9) == 0 {
		return &gType{nat: true}
	}
	t := &gType{}
	if r.Intn(2) == 0 {
		t.name = gName{vNss[r.Intn(len(vNss))], vLcNames[r.Intn(len(vLcNames))]}
	} else {
		t.name = gName{vNss[r.Intn(len(vNss))], vUcNames[r.Intn(len(vUcNames))]}
	}
	t.bare = r.Intn(5) == 0
	if depth > 0 && r.Intn(3) == 0 {
		n := 1 + r.Intn(3)
		for i := 0; i < n; i++ {
			switch r.Intn(4) {
			case 0:
				t.args = append(t.args, gArg{isNum: true, nums: vArith(r)})
			default:
				a := vGenType(r, depth-1, vars)
				if a.nat {
					a = &gType{name: gName{"", "int"}}
				}
				t.args = append(t.args, gArg{t: a})
			}
		}
	}
	return t
}

func vGenFields(r *rand.Rand, depth int, inBrackets bool, forTag bool) []gField {
	n := r.Intn(6)
	if inBrackets {
		n = 1 + r.Intn(2)
	}
	var fields []gField
	var nats []string
	for i := 0; i < n; i++ {
		f := gField{}
		if !inBrackets || r.Intn(2) == 0 {
			f.name = vLcNames[r.Intn(len(vLcNames))] + strconv.Itoa(i)
		}
		maskOK := true
		if len(nats) > 0 && r.Intn(4) == 0 {
			f.hasMask = true
			f.mask = nats[r.Intn(len(nats))]
			f.bit = uint32(r.Intn(32))
		}
		if !inBrackets && r.Intn(12) == 0 {
			f.excl = true
		}
		if depth > 0 && r.Intn(5) == 0 {
			if inBrackets && forTag {
				// a masked repetition nested in brackets is outside what the documented rule covers
				f.hasMask = false
			}
			_ = maskOK
			rep := &gRep{}
			switch r.Intn(3) {
			case 1:
				if len(nats) > 0 {
					rep.scaleKind = 1
					rep.scale = nats[r.Intn(len(nats))]
				} else {
					rep.scaleKind = 2
					rep.nums = vArith(r)
				}
			case 2:
				rep.scaleKind = 2
				rep.nums = vArith(r)
			}
			rep.fields = vGenFields(r, depth-1, true, forTag)
			f.rep = rep
		} else {
			f.t = vGenType(r, depth, nats)
			if inBrackets && forTag {
				// keep element types simple inside brackets: the documented canonical form says nothing
				// about parenthesised applications or '%' inside "[ ... ]"
				f.t.args = nil
				if f.t.bare && !f.t.nat && f.t.name.name[0] >= 'a' && f.t.name.name[0] <= 'z' {
					f.t.bare = false
				}
			}
			if f.t.nat && f.name != "" {
				nats = append(nats, f.name)
			}
			if f.t.nat && f.name == "" && !inBrackets {
				f.name = "n" + strconv.Itoa(i)
				nats = append(nats, f.name)
			}
		}
		fields = append(fields, f)
	}
	return fields
}

func vGenComb(r *rand.Rand, isFunc bool, forTag bool) gComb {
	c := gComb{isFunc: isFunc}
	c.name = gName{vNss[r.Intn(len(vNss))], vLcNames[r.Intn(len(vLcNames))] + strconv.Itoa(r.Intn(1000))}
	if r.Intn(2) == 0 {
		c.explicit = true
		c.tag = r.Uint32()
		if c.tag == 0 {
			c.tag = 1
		}
	}
	if isFunc || r.Intn(6) == 0 {
		k := r.Intn(3)
		seen := map[string]bool{}
		for i := 0; i < k; i++ {
			m := vMods[r.Intn(len(vMods))]
			if !seen[m] {
				seen[m] = true
				c.mods = append(c.mods, m)
			}
		}
	}
	if r.Intn(4) == 0 {
		k := 1 + r.Intn(3)
		for i := 0; i < k; i++ {
			c.tmpl = append(c.tmpl, gTmpl{name: []string{"t", "X", "n", "k", "Y"}[i%5] + strconv.Itoa(i), isNat: r.Intn(2) == 0})
		}
	}
	c.fields = vGenFields(r, 2, false, forTag)
	if isFunc {
		res := vGenType(r, 2, nil)
		if res.nat {
			res = &gType{name: gName{"", "Int"}}
		}
		c.res = *res
	} else {
		c.declName = gName{c.name.ns, vUcNames[r.Intn(len(vUcNames))] + strconv.Itoa(r.Intn(100))}
		for _, ta := range c.tmpl {
			c.declArgs = append(c.declArgs, ta.name)
		}
	}
	return c
}

func vGenTL1File(r *rand.Rand, n int) gFile {
	var f gFile
	for i := 0; i < n; i++ {
		if r.Intn(3) == 0 {
			f.funcs = append(f.funcs, vGenComb(r, true, false))
		} else {
			f.types = append(f.types, vGenComb(r, false, false))
		}
	}
	return f
}

// layout style
type vStyle struct {
	ws       int  // 0 single spaces, 1 random whitespace, 2 newlines heavy
	comments bool // // comments between tokens (ending in newline)
	angle    bool // prefer Name<a,b> over (Name a b)
	foldNum  bool // print arithmetic as its value
	parenNum bool // print (1+2) arithmetic with redundant parentheses
	noSpace  bool // drop optional spaces
	crlf     bool
}

func vRandStyle(r *rand.Rand) vStyle {
	return vStyle{ws: r.Intn(3), comments: r.Intn(3) == 0, angle: r.Intn(2) == 0, foldNum: r.Intn(2) == 0, parenNum: r.Intn(3) == 0, noSpace: r.Intn(4) == 0}
}

type vOut struct {
	sb strings.Builder
	r  *rand.Rand
	st vStyle
}

func (o *vOut) sep() {
	switch o.st.ws {
	case 0:
		o.sb.WriteByte(' ')
	case 1:
		k := 1 + o.r.Intn(3)
		for i := 0; i < k; i++ {
			o.sb.WriteByte(" \t "[o.r.Intn(3)])
		}
	default:
		if o.r.Intn(2) == 0 {
			o.sb.WriteString("\n  ")
		} else {
			o.sb.WriteByte(' ')
		}
	}
	if o.st.comments && o.r.Intn(4) == 0 {
		o.sb.WriteString("// c" + strconv.Itoa(o.r.Intn(100)) + " = ; [ ( \n")
	}
}

func (o *vOut) optsep() {
	if !o.st.noSpace && o.r.Intn(2) == 0 {
		o.sep()
	}
}

func (o *vOut) arith(nums []uint32, needParen bool) {
	if o.st.foldNum {
		var s uint64
		for _, n := range nums {
			s += uint64(n)
		}
		if s < 1<<32-1 {
			o.sb.WriteString(strconv.FormatUint(s, 10))
			return
		}
	}
	par := needParen && len(nums) > 1 || o.st.parenNum
	if par {
		o.sb.WriteByte('(')
	}
	for i, n := range nums {
		if i > 0 {
			o.optsep()
			o.sb.WriteByte('+')
			o.optsep()
		}
		o.sb.WriteString(strconv.FormatUint(uint64(n), 10))
	}
	if par {
		o.sb.WriteByte(')')
	}
}

// top: true when the type reference is the whole result of a function ("apply" without brackets allowed)
func (o *vOut) typ(t *gType, top bool) {
	if t.nat {
		o.sb.WriteByte('#')
		return
	}
	if len(t.args) == 0 {
		if t.bare {
			o.sb.WriteByte('%')
		}
		o.sb.WriteString(t.name.String())
		return
	}
	if o.st.angle {
		if t.bare {
			o.sb.WriteByte('%')
		}
		o.sb.WriteString(t.name.String())
		o.sb.WriteByte('<')
		for i, a := range t.args {
			if i > 0 {
				o.sb.WriteByte(',')
				o.optsep()
			}
			if a.isNum {
				o.arith(a.nums, false)
			} else {
				o.typ(a.t, false)
			}
		}
		o.sb.WriteByte('>')
		return
	}
	paren := !top || o.r.Intn(3) == 0
	if top && t.bare {
		paren = true // "%T a b" without brackets is not in the grammar; use %(T a b)
	}
	if t.bare {
		o.sb.WriteByte('%')
	}
	if paren {
		o.sb.WriteByte('(')
		o.optsep()
	}
	o.sb.WriteString(t.name.String())
	for _, a := range t.args {
		o.sep()
		if a.isNum {
			o.arith(a.nums, true)
		} else {
			o.typ(a.t, false)
		}
	}
	if paren {
		o.optsep()
		o.sb.WriteByte(')')
	}
}

func (o *vOut) field(f *gField) {
	if f.name != "" {
		o.sb.WriteString(f.name)
		o.sb.WriteByte(':')
	}
	if f.hasMask {
		o.sb.WriteString(f.mask + "." + strconv.FormatUint(uint64(f.bit), 10) + "?")
	}
	if f.excl {
		o.sb.WriteByte('!')
	}
	if f.rep != nil {
		switch f.rep.scaleKind {
		case 1:
			o.sb.WriteString(f.rep.scale)
			o.sb.WriteByte('*')
		case 2:
			if o.st.foldNum || len(f.rep.nums) == 1 && !o.st.parenNum {
				o.arith(f.rep.nums, true)
			} else {
				save := o.st.parenNum
				o.st.parenNum = true
				o.arith(f.rep.nums, true)
				o.st.parenNum = save
			}
			o.sb.WriteByte('*')
		}
		o.sb.WriteByte('[')
		o.optsep()
		for i := range f.rep.fields {
			if i > 0 {
				o.sep()
			}
			o.field(&f.rep.fields[i])
		}
		o.optsep()
		o.sb.WriteByte(']')
		return
	}
	o.typ(f.t, false)
}

func (o *vOut) comb(c *gComb) {
	for _, m := range c.mods {
		o.sb.WriteString("@" + m)
		o.sep()
	}
	o.sb.WriteString(c.name.String())
	if c.explicit {
		o.sb.WriteString(fmt.Sprintf("#%08x", c.tag))
	}
	o.sep()
	for _, ta := range c.tmpl {
		o.sb.WriteByte('{')
		o.sb.WriteString(ta.name)
		o.sb.WriteByte(':')
		if ta.isNat {
			o.sb.WriteByte('#')
		} else {
			o.sb.WriteString("Type")
		}
		o.sb.WriteByte('}')
		o.sep()
	}
	for i := range c.fields {
		o.field(&c.fields[i])
		o.sep()
	}
	o.sb.WriteByte('=')
	o.sep()
	if c.isFunc {
		o.typ(&c.res, true)
	} else {
		o.sb.WriteString(c.declName.String())
		for _, a := range c.declArgs {
			o.sep()
			o.sb.WriteString(a)
		}
	}
	o.optsep()
	o.sb.WriteByte(';')
}

func (f gFile) render(r *rand.Rand, st vStyle) string {
	o := &vOut{r: r, st: st}
	for i := range f.types {
		o.comb(&f.types[i])
		o.sb.WriteByte('\n')
	}
	if len(f.funcs) > 0 {
		o.sb.WriteString("---functions---\n")
		for i := range f.funcs {
			o.comb(&f.funcs[i])
			o.sb.WriteByte('\n')
		}
	}
	return o.sb.String()
}

// ---- independent canonical form (from the documented rule) and tag

func vCanonType(sb *strings.Builder, t *gType) {
	if t.nat {
		sb.WriteByte('#')
		return
	}
	c := t.name.name[0]
	if t.bare && !(c >= 'a' && c <= 'z') {
		sb.WriteByte('%')
	}
	sb.WriteString(t.name.String())
	for _, a := range t.args {
		sb.WriteByte(' ')
		if a.isNum {
			var s uint64
			for _, n := range a.nums {
				s += uint64(n)
			}
			sb.WriteString(strconv.FormatUint(s, 10))
		} else {
			vCanonType(sb, a.t)
		}
	}
}

func vCanonField(sb *strings.Builder, f *gField) {
	if f.name != "" {
		sb.WriteString(f.name + ":")
	}
	if f.hasMask {
		sb.WriteString(f.mask + "." + strconv.FormatUint(uint64(f.bit), 10) + "?")
	}
	if f.rep != nil {
		switch f.rep.scaleKind {
		case 1:
			sb.WriteString(f.rep.scale + "*")
		case 2:
			var s uint64
			for _, n := range f.rep.nums {
				s += uint64(n)
			}
			sb.WriteString(strconv.FormatUint(s, 10) + "*")
		}
		sb.WriteString("[")
		for i := range f.rep.fields {
			sb.WriteByte(' ')
			vCanonField(sb, &f.rep.fields[i])
		}
		sb.WriteString(" ]")
		return
	}
	vCanonType(sb, f.t)
}

func vCanonical(c *gComb) string {
	var sb strings.Builder
	sb.WriteString(c.name.String())
	sb.WriteByte(' ')
	for _, ta := range c.tmpl {
		if ta.isNat {
			sb.WriteString(ta.name + ":# ")
		} else {
			sb.WriteString(ta.name + ":Type ")
		}
	}
	for i := range c.fields {
		vCanonField(&sb, &c.fields[i])
		sb.WriteByte(' ')
	}
	sb.WriteString("= ")
	if c.isFunc {
		vCanonType(&sb, &c.res)
	} else {
		sb.WriteString(c.declName.String())
		for _, a := range c.declArgs {
			sb.WriteString(" " + a)
		}
	}
	return sb.String()
}

func vArithOverflows(c *gComb) bool {
	over := false
	var walkT func(t *gType)
	sum := func(nums []uint32) {
		var s uint64
		for _, n := range nums {
			s += uint64(n)
		}
		if s >= 1<<32-1 {
			over = true
		}
	}
	walkT = func(t *gType) {
		if t == nil {
			return
		}
		for _, a := range t.args {
			if a.isNum {
				sum(a.nums)
			} else {
				walkT(a.t)
			}
		}
	}
	var walkF func(fs []gField)
	walkF = func(fs []gField) {
		for i := range fs {
			if fs[i].rep != nil {
				sum(fs[i].rep.nums)
				walkF(fs[i].rep.fields)
			} else {
				walkT(fs[i].t)
			}
		}
	}
	walkF(c.fields)
	walkT(&c.res)
	return over
}

// known answers that anchor the rule (docs/tests): text -> tag
var vKnownTags = []struct {
	text string
	tag  uint32
}{
	{"int ? = Int;", 0xa8509bda},
	{"long ? = Long;", 0x22076cba},
	{"float ? = Float;", 0x824dab22},
	{"double ? = Double;", 0x2210c154},
	{"string ? = String;", 0xb5286e24},
	{"vector {t:Type} # [t] = Vector t;", 0x1cb5c415},
	{"boolFalse = Bool;", 0xbc799737},
	{"boolTrue = Bool;", 0x997275b5},
	{"true = True;", 0x3fedd339},
	{"tuple {t:Type} {n:#} [t] = Tuple t n;", 0x9770768a},
	{"---functions---\n@any get_arrays n:# a:n*[int] b:5*[int] = Tuple int 5;", 0x90658cdb},
}

func TestVerifC23(t *testing.T) {
	seed := int64(vEnvInt("VERIF_SEED", 1))
	n := vEnvInt("VERIF_N", 3000)
	layouts := vEnvInt("VERIF_LAYOUTS", 8)
	r := rand.New(rand.NewSource(seed*104729 + 23))
	st := newVStats()
	for _, k := range vKnownTags {
		tl, err := ParseTLFile(k.text, "k.tl", LexerOptions{AllowBuiltin: true})
		st.counters["known_answers"]++
		if err != nil || len(tl.Combinators()) != 1 {
			st.violation("known-answer", "parse", fmt.Sprintf("known-answer combinator does not parse: %v", err), k.text)
			continue
		}
		if got := tl.Combinators()[0].Crc32(); got != k.tag {
			st.violation("known-answer", "tag", fmt.Sprintf("documented tag %08x, parser computed %08x", k.tag, got), k.text)
		}
	}
	for i := 0; i < n; i++ {
		c := vGenComb(r, r.Intn(3) == 0, true)
		if vArithOverflows(&c) {
			continue
		}
		canon := vCanonical(&c)
		want := crc32.ChecksumIEEE([]byte(canon))
		if c.explicit {
			want = c.tag
		}
		feature := fmt.Sprintf("func=%v explicit=%v tmpl=%d fields=%d", c.isFunc, c.explicit, len(c.tmpl), len(c.fields))
		st.distinct[canon] = true
		for l := 0; l < layouts; l++ {
			style := vRandStyle(r)
			if l == 0 {
				style = vStyle{}
			}
			f := gFile{}
			if c.isFunc {
				f.funcs = []gComb{c}
			} else {
				f.types = []gComb{c}
			}
			text := f.render(r, style)
			st.counters["layouts"]++
			var tl *TL
			var err error
			func() {
				defer func() {
					if rec := recover(); rec != nil {
						err = fmt.Errorf("panic: %v", rec)
					}
				}()
				tl, err = ParseTLFile(text, "g.tl", LexerOptions{})
			}()
			if err != nil {
				// the generator is a workload, not an oracle for acceptance: count and skip
				st.counters["layout_rejected"]++
				if st.counters["layout_rejected"] <= 3 {
					vEmit(map[string]any{"t": "note", "msg": "generated layout rejected: " + err.Error(), "input": text})
				}
				continue
			}
			cs := tl.Combinators()
			if len(cs) != 1 {
				st.counters["layout_rejected"]++
				continue
			}
			st.counters["layout_parsed"]++
			st.counters[feature]++
			got := cs[0].Crc32()
			if got != want {
				cl := "implicit"
				if c.explicit {
					cl = "explicit"
				}
				st.violation("tag", cl, fmt.Sprintf("expected tag %08x (canonical form %q, explicit=%v), parser reports %08x", want, canon, c.explicit, got), text)
			}
			if cs[0].Construct.IDExplicit != c.explicit {
				st.violation("tag", "explicitness", fmt.Sprintf("IDExplicit=%v but text explicit=%v", cs[0].Construct.IDExplicit, c.explicit), text)
			}
			if l == 1 && i%(n/4+1) == 0 {
				st.sample(map[string]any{"text": text, "canonical": canon, "tag": fmt.Sprintf("%08x", want)})
			}
		}
	}
	st.done("crc32")
}

// ---------------------------------------------------------------- structural comparison by reflection

var vIgnoredFieldNames = map[string]bool{
	"CommentBefore": true, "CommentRight": true, "NewlineRight": true, "CommentAfter": true,
	"OriginalDescriptor": true, "OriginalOrderIndex": true,
	"UsedAsMask": true, "UsedAsSize": true, "AffectedFields": true, "FileName": true,
	"OriginalArgumentName": true,
}

// vNorm renders a value structurally, skipping positions, comments and resolution-time fields.
// Arithmetic is rendered by its value only (the printer may print "1 + 2" for "(1+2)").
func vNorm(sb *strings.Builder, v reflect.Value, keepComments bool) {
	switch v.Kind() {
	case reflect.Ptr:
		if v.IsNil() {
			sb.WriteString("nil")
			return
		}
		sb.WriteString("&")
		vNorm(sb, v.Elem(), keepComments)
	case reflect.Struct:
		tn := v.Type().Name()
		if tn == "PositionRange" || tn == "Position" {
			return
		}
		if tn == "Arithmetic" {
			fmt.Fprintf(sb, "arith(%d)", v.FieldByName("Res").Uint())
			return
		}
		sb.WriteString(tn + "{")
		for i := 0; i < v.NumField(); i++ {
			ft := v.Type().Field(i)
			if ft.Type.Name() == "PositionRange" || ft.Type.Name() == "Position" {
				continue
			}
			if ft.Type.Kind() == reflect.Slice && ft.Type.Elem().Name() == "PositionRange" {
				continue
			}
			if vIgnoredFieldNames[ft.Name] {
				if !(keepComments && strings.HasPrefix(ft.Name, "Comment")) {
					continue
				}
			}
			if tn == "TL2Field" && ft.Name == "Name" && v.FieldByName("IsIgnored").Bool() {
				continue // ignored fields have no name semantics; the formatter normalises them
			}
			sb.WriteString(ft.Name + ":")
			vNorm(sb, v.Field(i), keepComments)
			sb.WriteString(",")
		}
		sb.WriteString("}")
	case reflect.Slice:
		fmt.Fprintf(sb, "[%d:", v.Len())
		for i := 0; i < v.Len(); i++ {
			vNorm(sb, v.Index(i), keepComments)
			sb.WriteString(";")
		}
		sb.WriteString("]")
	case reflect.String:
		s := v.String()
		if keepComments {
			s = strings.Join(strings.Fields(s), " ")
		}
		sb.WriteString(strconv.Quote(s))
	case reflect.Bool:
		fmt.Fprintf(sb, "%v", v.Bool())
	case reflect.Uint32, reflect.Uint64, reflect.Uint, reflect.Uint8:
		fmt.Fprintf(sb, "%d", v.Uint())
	case reflect.Int, reflect.Int32, reflect.Int64:
		fmt.Fprintf(sb, "%d", v.Int())
	default:
		fmt.Fprintf(sb, "?%s", v.Kind())
	}
}

func vNormString(v any, keepComments bool) string {
	var sb strings.Builder
	vNorm(&sb, reflect.ValueOf(v), keepComments)
	return sb.String()
}

// ---------------------------------------------------------------- C21

func vCheckTL1Print(st *vStats, src string, opts LexerOptions, origin string) {
	tl, err := ParseTLFile(src, "a.tl", opts)
	if err != nil {
		st.counters["unparseable_"+origin]++
		return
	}
	st.counters["schemas_"+origin]++
	var printed string
	func() {
		defer func() {
			if rec := recover(); rec != nil {
				st.violation("print-panic", "panic", fmt.Sprintf("TL.String panicked: %v", rec), src)
			}
		}()
		printed = tl.String()
	}()
	tl2, err := ParseTLFile(printed, "a.tl", opts)
	if err != nil {
		st.violation("reparse", "printed-text-rejected", fmt.Sprintf("printed schema does not parse: %v\nprinted:\n%s", err, vCut(printed, 1500)), src)
		return
	}
	a, b := tl.Combinators(), tl2.Combinators()
	if len(a) != len(b) {
		st.violation("reparse", "count", fmt.Sprintf("%d combinators before printing, %d after", len(a), len(b)), src)
		return
	}
	for i := range a {
		st.counters["combinators"]++
		x, y := vNormString(*a[i], false), vNormString(*b[i], false)
		st.distinct[x] = true
		if x != y {
			cl := "structure"
			if a[i].Construct.ID != b[i].Construct.ID {
				cl = "tag"
				if a[i].Construct.IDExplicit && a[i].Construct.ID == 0 {
					cl = "tag-explicit-zero"
				}
			}
			st.violation("reparse", cl, fmt.Sprintf("combinator %d differs after print+parse:\n before: %s\n after:  %s\n printed: %s", i, vCut(x, 1200), vCut(y, 1200), vCut(b[i].String(), 400)), vCut(src, 3000))
			return
		}
	}
	// sections: function-ness is part of the combinator (IsFunction), checked above
}

func vCut(s string, n int) string {
	if len(s) > n {
		return s[:n] + "..."
	}
	return s
}

func TestVerifC21(t *testing.T) {
	seed := int64(vEnvInt("VERIF_SEED", 1))
	n := vEnvInt("VERIF_N", 3000)
	r := rand.New(rand.NewSource(seed*15485863 + 21))
	st := newVStats()
	corpus := vLoadCorpus(".tl")
	for _, c := range corpus {
		vCheckTL1Print(st, c, LexerOptions{AllowBuiltin: true, AllowDirty: true}, "repo")
	}
	// hand-written corner cases
	for _, c := range []string{
		"foo {n:#} a:n*[int] b:(1+2)*[x:int y:%(Vector int)] = Foo n;\n---functions---\n@read @any f x:# y:x.3?!X = Vector<int>;",
		"a {X:Type} x:!X = A X;", "a#0000000f = A;", "---functions---\nf#00000001 => A;", "a x:%b y:%(C 1 2) z:(%C 1 2) = A;",
		"a [int] = A;", "a n:# [ m:# m*[int] ] = A;", "@any @kphp a = A;", "foo#00000000 = Foo;",
	} {
		vCheckTL1Print(st, c, LexerOptions{}, "handwritten")
	}
	for i := 0; i < n; i++ {
		f := vGenTL1File(r, 1+r.Intn(5))
		src := f.render(r, vRandStyle(r))
		vCheckTL1Print(st, src, LexerOptions{}, "generated")
		if i%(n/4+1) == 0 {
			st.sample(vCut(src, 300))
		}
	}
	// mutants of the repository schemas that still parse
	for i := 0; i < n; i++ {
		s := corpus[r.Intn(len(corpus))]
		if len(s) > 1500 {
			p := r.Intn(len(s) - 1500)
			s = s[p : p+1500]
			if k := strings.Index(s, ";"); k >= 0 {
				s = s[k+1:]
			}
		}
		s = vMutate(r, s)
		vCheckTL1Print(st, s, LexerOptions{AllowBuiltin: true, AllowDirty: true}, "mutant")
	}
	st.done("tl1print")
}

// ---------------------------------------------------------------- TL2 syntactic generator

type g2Type struct {
	ns, name string
	args     []g2Arg
	bracket  bool
	hasIndex bool
	index    *g2Arg
	elem     *g2Type
}
type g2Arg struct {
	isNum bool
	num   uint32
	t     *g2Type
}
type g2Field struct {
	name     string
	optional bool
	ignored  bool
	t        *g2Type
	comment  string
}
type g2Variant struct {
	name    string
	alias   *g2Type
	fields  []g2Field
	comment string
}
type g2Def struct {
	kind     int // 0 struct, 1 union, 2 alias
	fields   []g2Field
	variants []g2Variant
	alias    *g2Type
}
type g2Comb struct {
	anns    []string
	ns      string
	name    string
	magic   uint32
	tmpl    []gTmpl
	isFunc  bool
	args    []g2Field
	def     g2Def
	comment string
	retBare bool // function: "=> T" form
}
type g2File struct{ combs []g2Comb }

var v2Prims = []string{"int32", "int64", "uint32", "uint64", "string", "bool", "bit", "float32", "float64", "byte"}

func vGen2Type(r *rand.Rand, depth int) *g2Type {
	if depth > 0 && r.Intn(4) == 0 {
		t := &g2Type{bracket: true}
		switch r.Intn(3) {
		case 0:
		case 1:
			t.hasIndex = true
			t.index = &g2Arg{isNum: true, num: uint32(r.Intn(20))}
		default:
			t.hasIndex = true
			t.index = &g2Arg{t: vGen2Type(r, 0)}
		}
		t.elem = vGen2Type(r, depth-1)
		return t
	}
	t := &g2Type{}
	if r.Intn(2) == 0 {
		t.name = v2Prims[r.Intn(len(v2Prims))]
	} else {
		t.ns = vNss[r.Intn(len(vNss))]
		if r.Intn(2) == 0 {
			t.name = vLcNames[r.Intn(len(vLcNames))]
		} else {
			t.name = vUcNames[r.Intn(len(vUcNames))]
		}
		if depth > 0 && r.Intn(3) == 0 {
			k := 1 + r.Intn(3)
			for i := 0; i < k; i++ {
				if r.Intn(3) == 0 {
					t.args = append(t.args, g2Arg{isNum: true, num: vNum(r)})
				} else {
					t.args = append(t.args, g2Arg{t: vGen2Type(r, depth-1)})
				}
			}
		}
	}
	return t
}

func vGen2Fields(r *rand.Rand, max int, long bool) []g2Field {
	n := r.Intn(max + 1)
	var res []g2Field
	for i := 0; i < n; i++ {
		f := g2Field{t: vGen2Type(r, 2)}
		switch r.Intn(10) {
		case 0:
			f.ignored = true
			f.name = "_"
		case 1:
			f.ignored = true
			f.name = "_" + vLcNames[r.Intn(len(vLcNames))]
		default:
			f.name = vLcNames[r.Intn(len(vLcNames))] + strconv.Itoa(i)
			if long {
				f.name += strings.Repeat("x", r.Intn(30))
			}
			f.optional = r.Intn(4) == 0
		}
		if r.Intn(8) == 0 {
			f.comment = "// tlgen:tl1mask:\"" + strconv.Itoa(r.Intn(32)) + "\""
		} else if r.Intn(10) == 0 {
			f.comment = vMultiLineComment(r, "field "+strconv.Itoa(i))
		}
		res = append(res, f)
	}
	return res
}

// vMultiLineComment is a comment of 1-3 lines; following lines are indented the way the formatter itself prints them (or deeper)
func vMultiLineComment(r *rand.Rand, what string) string {
	n := 1 + r.Intn(3)
	var lines []string
	for i := 0; i < n; i++ {
		lines = append(lines, "// "+what+" line "+strconv.Itoa(i))
	}
	indent := []string{"\n    ", "\n\t", "\n\t\t", "\n"}[r.Intn(4)]
	return strings.Join(lines, indent)
}

func vGen2Def(r *rand.Rand, isRet bool) g2Def {
	long := r.Intn(4) == 0
	switch r.Intn(5) {
	case 0:
		return g2Def{kind: 2, alias: vGen2Type(r, 2)}
	case 1, 2:
		d := g2Def{kind: 1}
		k := 1 + r.Intn(4)
		for i := 0; i < k; i++ {
			v := g2Variant{name: vLcNames[r.Intn(len(vLcNames))] + strconv.Itoa(i)}
			if r.Intn(5) == 0 {
				v.name = vUcNames[r.Intn(len(vUcNames))] + strconv.Itoa(i)
			}
			switch r.Intn(3) {
			case 0:
				v.alias = vGen2Type(r, 1)
			default:
				v.fields = vGen2Fields(r, 3, long)
			}
			if r.Intn(6) == 0 {
				v.comment = "// tlgen:tl1name:\"n" + strconv.Itoa(i) + "\""
			} else if r.Intn(10) == 0 {
				v.comment = vMultiLineComment(r, "variant "+strconv.Itoa(i))
			}
			d.variants = append(d.variants, v)
		}
		return d
	default:
		return g2Def{kind: 0, fields: vGen2Fields(r, 9, long)}
	}
}

func vGenTL2File(r *rand.Rand, n int) g2File {
	var f g2File
	for i := 0; i < n; i++ {
		c := g2Comb{ns: vNss[r.Intn(len(vNss))], name: vLcNames[r.Intn(len(vLcNames))] + strconv.Itoa(r.Intn(1000))}
		if r.Intn(4) == 0 {
			c.name = vUcNames[r.Intn(len(vUcNames))] + strconv.Itoa(r.Intn(1000))
		}
		if r.Intn(5) == 0 {
			k := 1 + r.Intn(2)
			for j := 0; j < k; j++ {
				c.anns = append(c.anns, vMods[r.Intn(len(vMods))])
			}
		}
		if r.Intn(6) == 0 {
			c.comment = "// comment " + strconv.Itoa(i) + "\n"
		} else if r.Intn(10) == 0 {
			c.comment = strings.ReplaceAll(vMultiLineComment(r, "combinator "+strconv.Itoa(i)), "\n    ", "\n") + "\n"
		}
		if r.Intn(3) == 0 {
			c.isFunc = true
			c.magic = r.Uint32() | 1
			c.args = vGen2Fields(r, 5, r.Intn(4) == 0)
			c.def = vGen2Def(r, true)
			if c.def.kind == 0 && r.Intn(2) == 0 {
				c.retBare = true
				c.def.alias = vGen2Type(r, 2)
			}
		} else {
			if r.Intn(3) == 0 {
				c.magic = r.Uint32() | 1
			}
			if r.Intn(4) == 0 {
				k := 1 + r.Intn(3)
				for j := 0; j < k; j++ {
					c.tmpl = append(c.tmpl, gTmpl{name: []string{"t", "X", "n"}[j%3] + strconv.Itoa(j), isNat: r.Intn(2) == 0})
				}
			}
			c.def = vGen2Def(r, false)
		}
		f.combs = append(f.combs, c)
	}
	return f
}

type v2Out struct {
	sb    strings.Builder
	r     *rand.Rand
	noise bool
}

func (o *v2Out) sp() {
	if !o.noise {
		o.sb.WriteByte(' ')
		return
	}
	switch o.r.Intn(6) {
	case 0:
		o.sb.WriteString("\n    ")
	case 1:
		o.sb.WriteString("  ")
	case 2:
		o.sb.WriteString("\t")
	default:
		o.sb.WriteByte(' ')
	}
}

func (o *v2Out) typ(t *g2Type) {
	if t.bracket {
		o.sb.WriteByte('[')
		if t.hasIndex {
			o.arg(t.index)
		}
		o.sb.WriteByte(']')
		o.typ(t.elem)
		return
	}
	if t.ns != "" {
		o.sb.WriteString(t.ns + ".")
	}
	o.sb.WriteString(t.name)
	if len(t.args) > 0 {
		o.sb.WriteByte('<')
		for i := range t.args {
			if i > 0 {
				o.sb.WriteByte(',')
				if o.noise && o.r.Intn(2) == 0 {
					o.sb.WriteByte(' ')
				}
			}
			o.arg(&t.args[i])
		}
		o.sb.WriteByte('>')
	}
}

func (o *v2Out) arg(a *g2Arg) {
	if a.isNum {
		o.sb.WriteString(strconv.FormatUint(uint64(a.num), 10))
	} else {
		o.typ(a.t)
	}
}

func (o *v2Out) fields(fs []g2Field) {
	for i := range fs {
		f := &fs[i]
		o.sp()
		if f.comment != "" {
			o.sb.WriteString("\n    " + f.comment + "\n    ")
		}
		o.sb.WriteString(f.name)
		if f.optional {
			o.sb.WriteByte('?')
		}
		o.sb.WriteByte(':')
		o.typ(f.t)
	}
}

func (o *v2Out) def(d *g2Def) {
	switch d.kind {
	case 2:
		o.typ(d.alias)
	case 1:
		for i := range d.variants {
			v := &d.variants[i]
			if i > 0 || len(d.variants) == 1 || o.r.Intn(2) == 0 {
				if v.comment != "" {
					o.sb.WriteString("\n    " + v.comment + "\n    ")
				}
				o.sp()
				o.sb.WriteString("|")
			}
			o.sp()
			o.sb.WriteString(v.name)
			if v.alias != nil {
				o.sp()
				o.typ(v.alias)
			} else {
				o.fields(v.fields)
			}
		}
	default:
		o.fields(d.fields)
	}
}

func (f g2File) render(r *rand.Rand, noise bool) string {
	o := &v2Out{r: r, noise: noise}
	for i := range f.combs {
		c := &f.combs[i]
		o.sb.WriteString(c.comment)
		for _, a := range c.anns {
			o.sb.WriteString("@" + a + " ")
		}
		if c.ns != "" {
			o.sb.WriteString(c.ns + ".")
		}
		o.sb.WriteString(c.name)
		if c.magic != 0 {
			o.sb.WriteString(fmt.Sprintf("#%08x", c.magic))
		}
		if c.isFunc {
			o.fields(c.args)
			o.sp()
			o.sb.WriteString("=>")
			if c.retBare {
				o.sp()
				o.typ(c.def.alias)
			} else if c.def.kind == 2 {
				o.sp()
				o.sb.WriteString("<=>")
				o.sp()
				o.typ(c.def.alias)
			} else {
				o.def(&c.def)
			}
		} else {
			if len(c.tmpl) > 0 {
				o.sb.WriteByte('<')
				for j, ta := range c.tmpl {
					if j > 0 {
						o.sb.WriteByte(',')
					}
					o.sb.WriteString(ta.name + ":")
					if ta.isNat {
						o.sb.WriteString("#")
					} else {
						o.sb.WriteString("Type")
					}
				}
				o.sb.WriteByte('>')
			}
			o.sp()
			if c.def.kind == 2 {
				o.sb.WriteString("<=>")
				o.sp()
				o.typ(c.def.alias)
			} else {
				o.sb.WriteString("=")
				o.def(&c.def)
			}
		}
		if o.noise && o.r.Intn(2) == 0 {
			o.sb.WriteByte(' ')
		}
		o.sb.WriteString(";\n")
	}
	return o.sb.String()
}

// ---------------------------------------------------------------- C22

func vCheckTL2Format(st *vStats, src string, origin string) {
	f, err := ParseTL2File(src, "a.tl2", LexerOptions{LexerLanguage: TL2})
	if err != nil {
		st.counters["unparseable_"+origin]++
		if origin == "generated" && st.counters["unparseable_generated"] <= 3 {
			vEmit(map[string]any{"t": "note", "msg": "generated TL2 rejected: " + err.Error(), "input": vCut(src, 600)})
		}
		return
	}
	st.counters["files_"+origin]++
	want := vNormString(f, false)
	for _, canon := range []bool{false, true} {
		opt := NewDefaultFormatOptions()
		if canon {
			opt = NewCanonicalFormatOptions()
		}
		var p1 string
		func() {
			defer func() {
				if rec := recover(); rec != nil {
					st.violation("format-panic", "panic", fmt.Sprintf("Print panicked (canonical=%v): %v", canon, rec), src)
				}
			}()
			var sb strings.Builder
			f.Print(&sb, opt)
			p1 = sb.String()
		}()
		st.counters["formatted"]++
		f2, err := ParseTL2File(p1, "a.tl2", LexerOptions{LexerLanguage: TL2})
		if err != nil {
			cl := "formatted-text-rejected"
			if vHasMonoUnion(f) {
				cl = "formatted-text-rejected-single-variant-union"
			}
			st.violation("reparse", cl, fmt.Sprintf("formatted text (canonical=%v) does not parse: %v\nformatted:\n%s", canon, err, vCut(p1, 1500)), src)
			continue
		}
		got := vNormString(f2, false)
		if got != want {
			cl := "declarations"
			if vHasMonoUnion(f) {
				cl = "declarations-single-variant-union"
			}
			fd := 0
			for fd < len(want) && fd < len(got) && want[fd] == got[fd] {
				fd++
			}
			around := func(x string) string { return x[max(0, fd-200):min(len(x), fd+200)] }
			st.violation("reparse", cl, fmt.Sprintf("declarations differ after formatting (canonical=%v), first difference at %d:\n before: ...%s...\n after:  ...%s...\nformatted:\n%s", canon, fd, around(want), around(got), vCut(p1, 1500)), src)
			continue
		}
		var sb2 strings.Builder
		f2.Print(&sb2, opt)
		if sb2.String() != p1 {
			st.violation("idempotence", "not-idempotent", fmt.Sprintf("formatting twice differs (canonical=%v):\n first:\n%s\n second:\n%s", canon, vCut(p1, 1200), vCut(sb2.String(), 1200)), src)
			continue
		}
		if !canon {
			// default options keep comments: pragma comments ("tlgen:...") carry meaning
			if a, b := vNormString(f, true), vNormString(f2, true); a != b {
				st.counters["comment_differences"]++
			}
		}
	}
	for i := range f.Combinators {
		st.distinct[vNormString(f.Combinators[i], false)] = true
		st.counters["declarations"]++
	}
}

func vHasMonoUnion(f TL2File) bool {
	for _, c := range f.Combinators {
		d := c.TypeDecl.Type
		if c.IsFunction {
			d = c.FuncDecl.ReturnType
		}
		if !d.IsTypeAlias && d.StructType.IsUnionType && len(d.StructType.UnionType.Variants) == 1 {
			return true
		}
	}
	return false
}

func TestVerifC22(t *testing.T) {
	seed := int64(vEnvInt("VERIF_SEED", 1))
	n := vEnvInt("VERIF_N", 3000)
	r := rand.New(rand.NewSource(seed*32452843 + 22))
	st := newVStats()
	corpus := vLoadCorpus(".tl2")
	for _, c := range corpus {
		vCheckTL2Format(st, c, "repo")
	}
	for _, c := range []string{
		"a = x:int32 _old:string _:int64 y?:[]bit;\n",
		"// c1\n@read f#12345678 // c2\n a:int32 // c3\n => found x:int32 | notFound;\n",
		"u = a x:int32 | b | c [3]int32;\nal <=> [string]pair<int32,bit>;\nt<x:Type,n:#> = v:[n]x;\nf#00000001 x:int32 => <=> u;\ng#00000002 => ;\n",
		"longname = aaaaaaaaaaaaaaaaaaaaaaaaaaaaaaa:int32 bbbbbbbbbbbbbbbbbbbbbbbbbbbbbbbbbbbbbbbbb:int32 ccccccccccccccccccccccccccccccccccccccccc:string ddddddddddddddddddddddddddd:int64 eeeeeeeeeeeeeeeeeeeeeeeeeee:int32;\n",
		"u = | a x:int32;\n", "u = | a;\n", "u = | a int32;\n", "f#00000001 => | a x:int32;\n",
	} {
		vCheckTL2Format(st, c, "handwritten")
	}
	for i := 0; i < n; i++ {
		f := vGenTL2File(r, 1+r.Intn(4))
		src := f.render(r, r.Intn(2) == 0)
		vCheckTL2Format(st, src, "generated")
		if i%(n/4+1) == 0 {
			st.sample(vCut(src, 300))
		}
	}
	for i := 0; i < n/2; i++ {
		s := corpus[r.Intn(len(corpus))]
		if len(s) > 1500 {
			p := r.Intn(len(s) - 1500)
			s = s[p : p+1500]
			if k := strings.Index(s, ";"); k >= 0 {
				s = s[k+1:]
			}
		}
		vCheckTL2Format(st, vMutate(r, s), "mutant")
	}
	st.done("tl2format")
}
