"""C43 generated field accessors control presence consistently (engine A)."""
from .. import codec

RULE = ("by reflection on every registry item that is a struct: for each SetX/IsSetX(/ClearX) triple and N random base values: SetX(hostile v) => IsSetX; at most "
        "the field's own key and mask numbers change among the top-level JSON keys; every encoding (TL1 bare/boxed, TL2, JSON) reads back with IsSetX true and "
        "the re-read values agree across encodings; ClearX => !IsSetX and the field is absent after a round trip through every encoding. Accessors whose mask "
        "is an external *uint32 are counted, not exercised (the mask is outside the object). distinct_nontrivial = distinct (item.field, set/clear).")


def run(ctx):
    codec.simple_check(ctx, "c43", RULE, [("types with accessors", "types_with_accessors", 15), ("setter calls", "setter_calls", 600), ("set round trips", "set_roundtrips", 1500),
                                          ("clear round trips", "clear_roundtrips", 500)], 24, 200, count_keys=("setter_calls", "clear_calls"))
