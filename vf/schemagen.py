"""SchemaGen: random TL1 schemas with an AST the reference model understands (DESIGN 4.1), and
RefCodec-TL1: an independent codec of the documented TL1 wire format over that AST (DESIGN 5.1).

The generator is a workload, not an oracle: a schema it believes valid but tl2gen rejects is counted and skipped.
"""
import binascii
import struct
import sys

sys.setrecursionlimit(20000)

from .core import SplitMix, stream

PRELUDE = """int#a8509bda ? = Int;
long#22076cba ? = Long;
float#824dab22 ? = Float;
double#2210c154 ? = Double;
string#b5286e24 ? = String;
boolFalse#bc799737 = Bool;
boolTrue#997275b5 = Bool;
true#3fedd339 = True;
vector#1cb5c415 {t:Type} # [t] = Vector t;
tuple#9770768a {t:Type} {n:#} [t] = Tuple t n;
resultFalse#27930a7b {t:Type} = Maybe t;
resultTrue#3f9c8ef8 {t:Type} result:t = Maybe t;
dictionaryField#239c1b62 {t:Type} key:string value:t = DictionaryField t;
dictionary#1f4c618f {t:Type} %(Vector %(DictionaryField t)) = Dictionary t;
intKeyDictionaryField#7bafc42f {t:Type} key:int value:t = IntKeyDictionaryField t;
intKeyDictionary#07bafc42 {t:Type} %(Vector %(IntKeyDictionaryField t)) = IntKeyDictionary t;
pair#f01604df {X:Type} {Y:Type} a:X b:Y = Pair X Y;
"""

TAG = {"Int": 0xa8509bda, "Long": 0x22076cba, "Float": 0x824dab22, "Double": 0x2210c154, "String": 0xb5286e24, "boolFalse": 0xbc799737, "boolTrue": 0x997275b5,
       "True": 0x3fedd339, "Vector": 0x1cb5c415, "Tuple": 0x9770768a, "resultFalse": 0x27930a7b, "resultTrue": 0x3f9c8ef8, "Dictionary": 0x1f4c618f,
       "IntKeyDictionary": 0x07bafc42, "Pair": 0xf01604df}

PRIM = ["int", "long", "float", "double", "string"]


class NatExpr:
    def __init__(self, kind, val):
        self.kind, self.val = kind, val  # const int | field name | param name

    def text(self):
        return str(self.val)

    def eval(self, env):
        if self.kind == "const":
            return self.val
        return env[self.val]


class T:
    """type expression; kind in: prim, boxedprim, nat, bool, true, vector, tuple, arr, maybe, dict, pair, ref"""

    def __init__(self, kind, **kw):
        self.kind = kind
        self.__dict__.update(kw)

    # ---- text
    def text(self, top=False):
        k = self.kind
        if k == "prim":
            return self.spelling
        if k == "boxedprim":
            return self.name
        if k == "nat":
            return "#"
        if k == "bool":
            return "Bool"
        if k == "true":
            return "True" if self.boxed else "true"
        if k == "vector":
            body = "%s %s" % ({"bare": "vector", "barepct": "%Vector", "boxed": "Vector"}[self.form], self.elem.text())
        elif k == "tuple":
            body = "%s %s %s" % ("Tuple" if self.boxed else "tuple", self.elem.text(), self.size.text())
        elif k == "maybe":
            body = "Maybe %s" % self.elem.text()
        elif k == "dict":
            nm = {"str": "dictionary", "int": "intKeyDictionary"}[self.key]
            if self.boxed:
                nm = nm[0].upper() + nm[1:]
            body = "%s %s" % (nm, self.elem.text())
        elif k == "pair":
            body = "%s %s %s" % ("Pair" if self.boxed else "pair", self.a.text(), self.b.text())
        elif k == "ref":
            d = self.decl
            nm = d.lname if self.bare and not self.pct else d.uname
            if self.pct:
                nm = "%" + d.uname
            if not self.args:
                return nm
            body = "%s %s" % (nm, " ".join(a.text() for a in self.args))
        else:
            raise ValueError(k)
        if body.startswith("%"):
            return "%(" + body[1:] + ")"
        return body if top else "(" + body + ")"


class Field:
    def __init__(self, name, typ, mask=None, arr=None):
        self.name, self.typ, self.mask = name, typ, mask  # mask = (NatExpr(field|param), bit)
        self.arr = arr  # NatExpr for n*[T] (typ is then the element type)
        self.role = None  # for nat fields: "mask" | "size"
        self.anon = False  # TL1 pattern '# name:[T]': anonymous count followed by brackets (typ is then a bare vector)

    def text(self):
        m = "%s.%d?" % (self.mask[0].text(), self.mask[1]) if self.mask else ""
        if self.anon:
            return "# %s:[%s]" % (self.name, self.typ.elem.text())
        if self.arr is not None:
            return "%s:%s%s*[%s]" % (self.name, m, self.arr.text(), self.typ.text())
        return "%s:%s%s" % (self.name, m, self.typ.text())


class Constructor:
    def __init__(self, lname, tag, explicit, fields):
        self.lname, self.tag, self.explicit, self.fields = lname, tag, explicit, fields


class Decl:
    """user type: struct | union | enum | typedef"""

    def __init__(self, kind, ns, base, params):
        self.kind, self.ns, self.base, self.params = kind, ns, base, params  # params: [(name, role)]
        self.uname = "%s.%s" % (ns, base[0].upper() + base[1:])
        self.lname = "%s.%s" % (ns, base[0].lower() + base[1:])
        self.constructors = []
        self.inner = None  # typedef: T

    def text(self):
        pdecl = "".join(" {%s:#}" % p for p, _ in self.params)
        pargs = "".join(" " + p for p, _ in self.params)
        out = []
        for c in self.constructors:
            tag = "#%08x" % c.tag if c.explicit else ""
            if self.kind == "typedef":
                out.append("%s%s %s = %s;" % (c.lname, tag, self.inner.text(), self.uname))
            else:
                fs = " ".join(f.text() for f in c.fields)
                out.append("%s%s%s %s= %s%s;" % (c.lname, tag, pdecl, fs + " " if fs else "", self.uname, pargs))
        return "\n".join(out)


class Function:
    def __init__(self, name, tag, ann, fields, result):
        self.name, self.tag, self.ann, self.fields, self.result = name, tag, ann, fields, result

    def text(self):
        fs = " ".join(f.text() for f in self.fields)
        return "@%s %s#%08x %s= %s;" % (self.ann, self.name, self.tag, fs + " " if fs else "", self.result.text(top=True))


class Schema:
    def __init__(self):
        self.decls, self.functions = [], []

    def text(self):
        return PRELUDE + "\n" + "\n".join(d.text() for d in self.decls) + "\n---functions---\n" + "\n".join(f.text() for f in self.functions) + "\n"


# ------------------------------------------------------------------------------------------ generator

FIELD_NAMES = ["a", "b", "c", "d", "e", "f", "g", "h", "k", "x", "y", "z", "val", "item", "str", "tl_name", "json", "w", "r", "err", "size", "flags", "data", "cnt", "key2"]


def is_empty_struct_ref(t):
    while t.kind == "ref" and t.decl.kind == "typedef":
        t = t.decl.inner
    return t.kind == "ref" and t.decl.kind == "struct" and not t.decl.constructors[0].fields


# names that do not collide with members of the generated C++ structs (tl_name, json ...)
CPP_SAFE_FIELD_NAMES = ["a", "b", "c", "d", "e", "f", "g", "h", "k", "x", "y", "z", "val", "item", "str", "w", "r", "err", "flags", "cnt", "key2", "payload", "count2"]


class Gen:
    def __init__(self, seed, label="schema", max_types=12, allow_recursion=True, profile="full", anon_pairs=True, rec_containers=False, field_names=None):
        self.field_names = field_names or FIELD_NAMES
        self.anon_pairs = anon_pairs
        self.rec_containers = rec_containers  # recursion through vector/dictionary/Maybe: legal, but generated FillRandom values of such types get huge
        self.r = stream(seed, label)
        self.s = Schema()
        self.tags = set(TAG.values())
        self.max_types = max_types
        self.allow_recursion = allow_recursion
        self.profile = profile
        self.nss = ["vz", "vy"][: 1 + self.r.below(2)]

    def tag(self):
        while True:
            t = self.r.next() & 0xffffffff
            if t and t not in self.tags:
                self.tags.add(t)
                return t

    def nat_arg(self, role, sizes, masks):
        pool = sizes if role == "size" else masks
        if pool and self.r.chance(7, 10):
            nm, kind = self.r.pick(pool)
            return NatExpr(kind, nm)
        return NatExpr("const", self.r.below(5) if role == "size" else self.r.pick([0, 1, 2, 3, 5, 255, 0x80000001]))

    def type_ref(self, depth, sizes, masks):
        r = self.r
        c = r.below(100)
        usable = [d for d in self.s.decls]
        if depth > 2 or c < 32 or not usable:
            p = r.pick(PRIM)
            k = r.below(10)
            if k < 6:
                return T("prim", name=p, spelling=p)
            if k < 7:
                return T("prim", name=p, spelling="%" + p.capitalize())
            if k < 9:
                return T("boxedprim", name=p.capitalize())
            return T("bool")
        if c < 47:
            return T("vector", elem=self.type_ref(depth + 1, sizes, masks), form=r.pick(["bare", "barepct", "boxed"]))
        if c < 54:
            return T("maybe", elem=self.type_ref(depth + 1, sizes, masks))
        if c < 61:
            return T("dict", key=r.pick(["str", "int"]), elem=self.type_ref(depth + 1, sizes, masks), boxed=r.chance(1, 3))
        if c < 66:
            return T("pair", a=self.type_ref(depth + 1, sizes, masks), b=self.type_ref(depth + 1, sizes, masks), boxed=r.chance(1, 4))
        if c < 73:
            return T("tuple", elem=self.type_ref(depth + 1, sizes, masks), size=self.nat_arg("size", sizes, masks), boxed=r.chance(1, 3))
        d = r.pick(usable)
        args = [self.nat_arg(role, sizes, masks) for (_, role) in d.params]
        if d.kind in ("struct", "typedef"):
            form = r.below(10)
            if form < 6:
                return T("ref", decl=d, bare=True, pct=False, args=args)
            if form < 7:
                return T("ref", decl=d, bare=True, pct=True, args=args)
            return T("ref", decl=d, bare=False, pct=False, args=args)
        return T("ref", decl=d, bare=False, pct=False, args=args)

    def gen_fields(self, params, n, self_decl=None):
        r = self.r
        sizes = [(p, "param") for (p, role) in params if role == "size"]
        masks = [(p, "param") for (p, role) in params if role == "mask"]
        out, used = [], set(p for p, _ in params)
        for i in range(n):
            nm = r.pick(self.field_names)
            while nm in used:
                nm = nm + str(r.below(90))
            used.add(nm)
            mask = None
            if masks and r.chance(45, 100):
                mn, mk = r.pick(masks)
                mask = (NatExpr(mk, mn), r.pick([0, 1, 2, 3, 7, 15, 31]))
            c = r.below(100)
            if c < 14:
                f = Field(nm, T("nat"), mask)
                f.role = r.pick(["mask", "size"])
                out.append(f)
                (masks if f.role == "mask" else sizes).append((nm, "field"))
                continue
            if c < 22 and mask:
                out.append(Field(nm, T("true", boxed=r.chance(1, 3)), mask))
                continue
            if c < 32:
                out.append(Field(nm, self.type_ref(1, sizes, masks), mask, arr=self.nat_arg("size", sizes, masks)))
                continue
            if c < 38 and not mask and self.anon_pairs:
                f = Field(nm, T("vector", elem=self.type_ref(1, sizes, masks), form="bare"))
                f.anon = True
                out.append(f)
                if r.chance(1, 2):
                    # a run of '#' fields right after the pair: references to them must survive the merge of the pair into one field
                    for role in ("size", r.pick(["mask", "size"])):
                        nm2 = r.pick(["n", "m", "cnt", "flags"]) + str(r.below(90))
                        while nm2 in used:
                            nm2 = nm2 + str(r.below(90))
                        used.add(nm2)
                        g = Field(nm2, T("nat"))
                        g.role = role
                        out.append(g)
                        (masks if role == "mask" else sizes).append((nm2, "field"))
                    out.append(Field(nm + "s", T("prim", name="int", spelling="int"), arr=NatExpr("field", out[-2].name)))
                    used.add(nm + "s")
                continue
            if self_decl is not None and self.allow_recursion and self.rec_containers and 38 <= c < 44:
                # recursion through a container: terminates because the container may be empty
                selfref = T("ref", decl=self_decl, bare=True, pct=False, args=[])
                k = r.below(4)
                if k == 0:
                    out.append(Field(nm, T("vector", elem=selfref, form=r.pick(["bare", "boxed"])), mask))
                elif k == 1:
                    out.append(Field(nm, T("dict", key=r.pick(["str", "int"]), elem=selfref, boxed=False), mask))
                elif k == 2:
                    out.append(Field(nm, T("maybe", elem=selfref), mask))
                else:
                    out.append(Field(nm, T("vector", elem=T("maybe", elem=selfref), form="bare"), mask))
                continue
            if self_decl is not None and mask and self.allow_recursion and r.chance(3, 10):
                out.append(Field(nm, T("ref", decl=self_decl, bare=True, pct=False, args=[]), mask))
                continue
            t = self.type_ref(0, sizes, masks)
            while mask and is_empty_struct_ref(t):  # an empty struct under a field mask does not compile (finding F19): kept out of ordinary schemas
                t = self.type_ref(0, sizes, masks)
            out.append(Field(nm, t, mask))
        return out

    def generate(self):
        r = self.r
        n = 3 + r.below(self.max_types - 2)
        for ti in range(n):
            ns = r.pick(self.nss)
            base = r.pick(["item", "obj", "node", "rec", "val", "Thing", "dataSet", "box"]) + str(ti)
            kind = r.pick(["struct"] * 6 + ["union"] * 2 + ["enum", "typedef"])
            params = []
            if kind in ("struct", "union"):
                for i in range(r.pick([0, 0, 0, 1, 2])):
                    params.append((r.pick(["n", "m", "k", "q"]) + str(i), r.pick(["mask", "size"])))
            d = Decl(kind, ns, base, params)
            explicit = r.chance(6, 10)
            if kind == "struct":
                fs = self.gen_fields(params, r.below(11), None if params else d)
                d.constructors.append(Constructor(d.lname, self.tag() if explicit else None, explicit, fs))
            elif kind == "typedef":
                d.inner = self.type_ref(1, [], [])
                while d.inner.kind == "bool":  # a typedef of Bool does not compile with TL2 (finding F18): kept out of ordinary schemas
                    d.inner = self.type_ref(1, [], [])
                d.constructors.append(Constructor(d.lname, self.tag() if explicit else None, explicit, []))
            elif kind == "enum":
                for v in range(2 + r.below(3)):
                    d.constructors.append(Constructor(d.lname + "ABCD"[v], self.tag() if explicit else None, explicit, []))
            else:
                for v in range(2 + r.below(3)):
                    fs = self.gen_fields(params, r.below(5))
                    d.constructors.append(Constructor(d.lname + "ABCD"[v], self.tag() if explicit else None, explicit, fs))
            self.s.decls.append(d)
        for fi in range(1 + r.below(4)):
            ns = r.pick(self.nss)
            fs = self.gen_fields([], r.below(6))
            sizes = [(f.name, "field") for f in fs if f.typ.kind == "nat" and f.role == "size" and not f.mask]
            masks = [(f.name, "field") for f in fs if f.typ.kind == "nat" and f.role == "mask" and not f.mask]
            res = self.boxed_result(self.type_ref(0, sizes, masks))
            self.s.functions.append(Function("%s.fn%d" % (ns, fi), self.tag(), r.pick(["read", "write", "any", "readwrite"]), fs, res))
        fix_implicit_tags(self.s)
        return self.s

    def boxed_result(self, t):
        """function results are boxed types"""
        k = t.kind
        if k == "prim":
            return T("boxedprim", name=t.name.capitalize())
        if k == "vector":
            t.form = "boxed"
        elif k in ("tuple", "dict", "pair"):
            t.boxed = True
        elif k == "ref":
            t.bare, t.pct = False, False
        return t


# ------------------------------------------------------------------------------------------ canonical form + CRC32 (independent of tlast)

def canon_type(t):
    k = t.kind
    if k == "prim":
        return t.name  # '%Int' is printed as... a bare reference to an upper-case name keeps its '%'
    if k == "boxedprim":
        return t.name
    if k == "nat":
        return "#"
    if k == "bool":
        return "Bool"
    if k == "true":
        return "True" if t.boxed else "true"
    if k == "vector":
        return "%s %s" % ({"bare": "vector", "barepct": "%Vector", "boxed": "Vector"}[t.form], canon_type(t.elem))
    if k == "tuple":
        return "%s %s %s" % ("Tuple" if t.boxed else "tuple", canon_type(t.elem), t.size.text())
    if k == "maybe":
        return "Maybe %s" % canon_type(t.elem)
    if k == "dict":
        nm = {"str": "dictionary", "int": "intKeyDictionary"}[t.key]
        return "%s %s" % (nm[0].upper() + nm[1:] if t.boxed else nm, canon_type(t.elem))
    if k == "pair":
        return "%s %s %s" % ("Pair" if t.boxed else "pair", canon_type(t.a), canon_type(t.b))
    d = t.decl
    nm = ("%" + d.uname) if t.pct else (d.lname if t.bare else d.uname)
    return " ".join([nm] + [a.text() for a in t.args])


def canon_prim(t):
    if t.kind == "prim" and t.spelling.startswith("%"):
        return t.spelling
    return canon_type(t)


def canon_field(f):
    m = "%s.%d?" % (f.mask[0].text(), f.mask[1]) if f.mask else ""
    if f.arr is not None:
        return "%s:%s%s*[ %s ]" % (f.name, m, f.arr.text(), _ct(f.typ, inner=True))
    return "%s:%s%s" % (f.name, m, _ct(f.typ))


def _ct(t, inner=False):
    # nested applications are flattened without parentheses at the top level of a field; inside '[ ]' the
    # implementation keeps the parenthesised spelling (observed; only simple element types are generated there when
    # the tag is implicit)
    s = canon_prim(t) if t.kind == "prim" else canon_type_deep(t)
    return s


def canon_type_deep(t):
    k = t.kind
    sub = lambda x: canon_prim(x) if x.kind == "prim" else canon_type_deep(x)
    if k == "vector":
        return "%s %s" % ({"bare": "vector", "barepct": "%Vector", "boxed": "Vector"}[t.form], sub(t.elem))
    if k == "tuple":
        return "%s %s %s" % ("Tuple" if t.boxed else "tuple", sub(t.elem), t.size.text())
    if k == "maybe":
        return "Maybe %s" % sub(t.elem)
    if k == "dict":
        nm = {"str": "dictionary", "int": "intKeyDictionary"}[t.key]
        return "%s %s" % (nm[0].upper() + nm[1:] if t.boxed else nm, sub(t.elem))
    if k == "pair":
        return "%s %s %s" % ("Pair" if t.boxed else "pair", sub(t.a), sub(t.b))
    return canon_type(t)


def canonical(decl, c):
    parts = [c.lname]
    for p, _ in decl.params:
        parts.append("%s:#" % p)
    if decl.kind == "typedef":
        parts.append(_ct(decl.inner))
    else:
        parts += [canon_field(f) for f in c.fields]
    parts.append("=")
    parts.append(decl.uname)
    parts += [p for p, _ in decl.params]
    return " ".join(parts)


def is_simple_for_crc(decl, c):
    """implicit tags are only generated where the documented canonical form is unambiguous: no array brackets with
    complex elements"""
    fields = c.fields if decl.kind != "typedef" else []
    for f in fields:
        if f.anon:
            return False
        if f.arr is not None and f.typ.kind not in ("prim", "boxedprim", "bool"):
            return False
        if f.arr is not None and f.typ.kind == "prim" and f.typ.spelling.startswith("%"):
            return False
    return True


def fix_implicit_tags(s):
    used = set(TAG.values())
    for d in s.decls:
        for c in d.constructors:
            if c.explicit:
                used.add(c.tag)
    for d in s.decls:
        for c in d.constructors:
            if not c.explicit:
                if not is_simple_for_crc(d, c):
                    c.explicit = True
                    t = binascii.crc32(canonical(d, c).encode()) & 0xffffffff
                    while t in used or t == 0:
                        t = (t * 2654435761 + 1) & 0xffffffff
                    c.tag = t
                else:
                    c.tag = binascii.crc32(canonical(d, c).encode()) & 0xffffffff
                    c.canonical = canonical(d, c)
                used.add(c.tag)


# ------------------------------------------------------------------------------------------ RefCodec TL1

class RefError(Exception):
    pass


class _Absent:
    def __repr__(self):
        return "ABSENT"


ABSENT = _Absent()  # a field whose mask bit is clear (distinct from Maybe's empty value None)


def enc_string(b):
    n = len(b)
    if n <= 253:
        out = bytes([n]) + b
    elif n < 1 << 24:
        out = b"\xfe" + n.to_bytes(3, "little") + b
    else:
        out = b"\xff" + n.to_bytes(7, "little") + b
    return out + b"\0" * (-len(out) % 4)


def tl2size(n):
    if n < 254:
        return bytes([n])
    if n < 254 + 65536:
        return b"\xfe" + (n - 254).to_bytes(2, "little")
    return b"\xff" + n.to_bytes(8, "little")


HOSTILE_STR = [b"", b"a", b"\xff", b"q\"\\\n\t\x00", b"x" * 253, b"y" * 254, b"z" * 255, b"w" * 256, "ключ".encode(), b"\xe2\x80\xa8", b"abc", b"NaN"]


class RefCodec:
    def __init__(self, schema, r):
        self.s, self.r = schema, r
        self.unsorted_dict = False
        self.alt2 = None  # random stream: TL2 alternative (non-canonical but equal) encodings - explicit empties, explicit zero masks (C13)
        self.strict_masks = False  # C28 value domain: masks set only bits the schema gives meaning to, unused '#' are 0

    # ---- random abstract values ----------------------------------------------------------
    def value(self, t, env, depth=0):
        r, k = self.r, t.kind
        if k in ("prim", "boxedprim"):
            return self.prim(t.name.lower())
        if k == "nat":
            return r.pick([0, 1, 2, 3, 255, 0xffffffff, r.next() & 0xffffffff])
        if k == "bool":
            return r.chance(1, 2)
        if k == "true":
            return True
        if k == "vector":
            n = 0 if depth > 3 else r.below(4)
            return [self.value(t.elem, env, depth + 1) for _ in range(n)]
        if k == "tuple":
            n = t.size.eval(env)
            return [self.value(t.elem, env, depth + 1) for _ in range(n)]
        if k == "maybe":
            if depth > 3 or r.chance(1, 3):
                return None
            return ("some", self.value(t.elem, env, depth + 1))
        if k == "dict":
            if t.elem.kind in ("prim", "boxedprim", "nat", "bool") and r.chance(1, 6):
                # the smallest non-empty dictionary: one entry whose key and value are both default
                zk = b"" if t.key == "str" else b"\0\0\0\0"
                en = t.elem.name.lower() if t.elem.kind in ("prim", "boxedprim") else ""
                zv = {"int": b"\0" * 4, "long": b"\0" * 8, "float": b"\0" * 4, "double": b"\0" * 8, "string": b""}.get(en, 0 if t.elem.kind == "nat" else False)
                return [(zk, zv)]
            n = 0 if depth > 3 else r.below(4)
            keys = set()
            out = []
            for _ in range(n):
                key = self.prim("string") if t.key == "str" else self.prim("int")
                if key in keys:
                    continue
                keys.add(key)
                out.append((key, self.value(t.elem, env, depth + 1)))
            out.sort(key=lambda kv: kv[0] if t.key == "str" else struct.unpack("<i", kv[0])[0])
            return out
        if k == "pair":
            return (self.value(t.a, env, depth + 1), self.value(t.b, env, depth + 1))
        d = t.decl
        penv = {p: a.eval(env) for (p, _), a in zip(d.params, t.args)}
        return self.decl_value(d, penv, depth + 1)

    def prim(self, name):
        r = self.r
        if name == "int":
            return struct.pack("<i", r.pick([0, 1, -1, 2 ** 31 - 1, -2 ** 31, (r.next() & 0xffffffff) - 2 ** 31]))
        if name == "long":
            return struct.pack("<q", r.pick([0, 1, -1, 2 ** 63 - 1, -2 ** 63, (r.next() & 0xffffffffffffffff) - 2 ** 63]))
        if name == "float":
            v = r.pick([b"\0\0\0\0", b"\0\0\x80\x3f", b"\0\0\0\x80", b"\0\0\x80\x7f", b"\x01\0\xc0\x7f", struct.pack("<I", r.next() & 0xffffffff)])
            if v == b"\0\0\0\x80" and not r.chance(1, 6):  # -0.0 is finding F5 (dropped as empty): kept rare so that it does not shadow everything else
                v = struct.pack("<I", (r.next() & 0x7fffffff) | 0x3f000000)
            return v
        if name == "double":
            v = r.pick([b"\0" * 8, b"\0" * 6 + b"\xf0\x3f", b"\0" * 7 + b"\x80", b"\0" * 6 + b"\xf0\x7f", struct.pack("<Q", r.next() & 0xffffffffffffffff)])
            if v == b"\0" * 7 + b"\x80" and not r.chance(1, 6):
                v = struct.pack("<Q", (r.next() & 0x7fffffffffffffff) | 0x3f00000000000000)
            return v
        if getattr(self, "force_long", 0):
            n, self.force_long = self.force_long, 0
            return bytes([97 + r.below(26)]) * n
        if r.chance(1, 150):
            return bytes([97 + r.below(26)]) * r.pick([65789, 65790, 65791, 70000])  # around the 2-byte / 8-byte TL2 size boundary
        return r.pick(HOSTILE_STR) if r.chance(3, 4) else bytes(r.below(256) for _ in range(r.below(40)))

    def fields_value(self, fields, penv, depth):
        """returns (ordered list of (field, value or ABSENT)), with nat fields consistent with what follows"""
        r = self.r
        env = dict(penv)
        vals = []
        # bits used per mask variable, so that masks mostly set meaningful bits
        used_bits = {}
        for f in fields:
            if f.mask:
                used_bits.setdefault(f.mask[0].val, set()).add(f.mask[1])
            # a '#' handed on to a template as its mask parameter: the bits that template (and whatever it forwards to) gives a meaning to
            for name, bits in forwarded_mask_bits(f.typ):
                used_bits.setdefault(name, set()).update(bits)
        for f in fields:
            present = True
            if f.mask:
                mv = env.get(f.mask[0].val)
                present = mv is not None and (mv >> f.mask[1]) & 1 == 1
            if not present:
                vals.append((f, ABSENT))
                if f.typ.kind == "nat":
                    env[f.name] = 0  # an absent nat reads as 0 for everything that depends on it
                continue
            if f.typ.kind == "nat" and f.arr is None:
                if f.role == "mask":
                    v = 0
                    for b in used_bits.get(f.name, ()):
                        if depth <= 4 and r.chance(1, 2 + depth):
                            v |= 1 << b
                    if r.chance(1, 5) and depth <= 4 and not self.strict_masks:
                        v |= 1 << r.below(32)
                    if depth > 4:
                        v = 0  # recursion through masked fields stops here
                elif depth > 3:
                    v = 0
                else:
                    v = r.below(4)
                if self.strict_masks and not nat_is_used(fields, f.name):
                    v = 0
                env[f.name] = v
                vals.append((f, v))
                continue
            if f.arr is not None:
                n = f.arr.eval(env)
                vals.append((f, [self.value(f.typ, env, depth + 1) for _ in range(n)]))
                continue
            vals.append((f, self.value(f.typ, env, depth + 1)))
        return vals

    def decl_value(self, d, penv, depth):
        if d.kind == "typedef":
            return ("typedef", self.value(d.inner, penv, depth))
        if d.kind == "struct":
            return ("struct", self.fields_value(d.constructors[0].fields, penv, depth))
        # union / enum: choose a constructor (recursion-free choice when deep: first one)
        ci = 0 if depth > 4 else self.r.below(len(d.constructors))
        c = d.constructors[ci]
        return ("union", ci, self.fields_value(c.fields, penv, depth))

    # ---- encoding -----------------------------------------------------------------------------
    def enc(self, t, v, out):
        """encode value v of type expression t as the expression spells it (bare or boxed)"""
        k = t.kind
        u32 = lambda x: struct.pack("<I", x & 0xffffffff)
        if k == "prim":
            out.append(enc_string(v) if t.name == "string" else v)
        elif k == "boxedprim":
            out.append(u32(TAG[t.name]))
            out.append(enc_string(v) if t.name == "String" else v)
        elif k == "nat":
            out.append(u32(v))
        elif k == "bool":
            out.append(u32(TAG["boolTrue"] if v else TAG["boolFalse"]))
        elif k == "true":
            if t.boxed:
                out.append(u32(TAG["True"]))
        elif k == "vector":
            if t.form == "boxed":
                out.append(u32(TAG["Vector"]))
            out.append(u32(len(v)))
            for e in v:
                self.enc(t.elem, e, out)
        elif k == "tuple":
            if t.boxed:
                out.append(u32(TAG["Tuple"]))
            for e in v:
                self.enc(t.elem, e, out)
        elif k == "maybe":
            if v is None:
                out.append(u32(TAG["resultFalse"]))
            else:
                out.append(u32(TAG["resultTrue"]))
                self.enc(t.elem, v[1], out)
        elif k == "dict":
            if t.boxed:
                out.append(u32(TAG["Dictionary"] if t.key == "str" else TAG["IntKeyDictionary"]))
            out.append(u32(len(v)))
            for key, val in v:
                out.append(enc_string(key) if t.key == "str" else key)
                self.enc(t.elem, val, out)
        elif k == "pair":
            if t.boxed:
                out.append(u32(TAG["Pair"]))
            self.enc(t.a, v[0], out)
            self.enc(t.b, v[1], out)
        else:
            self.enc_decl(t.decl, v, out, boxed=not t.bare)

    def enc_fields(self, vals, out):
        for f, v in vals:
            if v is ABSENT:
                continue
            if f.arr is not None:
                for e in v:
                    self.enc(f.typ, e, out)
            else:
                self.enc(f.typ, v, out)

    def enc_decl(self, d, v, out, boxed):
        u32 = lambda x: struct.pack("<I", x & 0xffffffff)
        if v[0] == "typedef":
            if boxed:
                out.append(u32(d.constructors[0].tag))
            self.enc(d.inner, v[1], out)
        elif v[0] == "struct":
            if boxed:
                out.append(u32(d.constructors[0].tag))
            self.enc_fields(v[1], out)
        else:
            out.append(u32(d.constructors[v[1]].tag))  # unions are always boxed
            self.enc_fields(v[2], out)

    def encode_item(self, d, v, boxed):
        out = []
        self.enc_decl(d, v, out, boxed or d.kind in ("union", "enum"))
        return b"".join(out)

    # ---- TL2 encoding of TL1-origin types (the documented TL2 view: docs/TL2Primer.pdf + DESIGN appendix A) ---------------
    def enc2(self, t, v, cenv, opt):
        """TL2 bytes of value v; opt: the position allows leaving an empty value out (returns b"")"""
        k = t.kind
        if k in ("prim", "boxedprim"):
            if t.name.lower() == "string":
                if not v:
                    return b"" if opt else self.empty2(is_string=True)
                return tl2size(len(v)) + v
            if t.name.lower() in ("float", "double") and v == b"\0" * (len(v) - 1) + b"\x80":
                self.saw_negative_zero = True
            return b"" if (opt and v == b"\0" * len(v)) else v
        if k == "nat":
            return b"" if (opt and v == 0) else struct.pack("<I", v & 0xffffffff)
        if k == "bool":
            return b"" if (opt and not v) else (b"\1" if v else b"\0")
        if k == "true":
            return b"" if opt else self.empty2()
        if k == "vector":
            return self.arr2(t.elem, v, cenv, opt)
        if k == "tuple":
            return self.arr2(t.elem, v, cenv, opt)
        if k == "maybe":
            if v is None:
                return b"" if opt else self.empty2()
            x = self.enc2(t.elem, v[1], cenv, True)
            body = bytes([0x01 | (0x02 if x else 0)]) + b"\1" + x
            return tl2size(len(body)) + body
        if k == "dict":
            kt = T("prim", name="string" if t.key == "str" else "int", spelling="")
            elems = [self.obj2(self.body2([(kt, key, False, None), (t.elem, val, False, None)], cenv), False) for key, val in v]
            return self.arr2_raw(elems, opt)
        if k == "pair":
            return self.obj2(self.body2([(t.a, v[0], False, None), (t.b, v[1], False, None)], cenv), opt)
        d = t.decl
        c2 = {p: (a.kind == "const" or (a.kind == "param" and cenv.get(a.val, False))) for (p, _), a in zip(d.params, t.args)}
        return self.enc2_decl(d, v, c2, opt)

    def empty2(self, is_string=False):
        """an empty sized value where it cannot be left out: 00, or (alternative mode) size 1 + zero mask/count byte, or the 9-byte zero size"""
        if self.alt2 is None:
            return b"\0"
        k = self.alt2.below(4)
        if k == 0 and not is_string:
            return b"\1\0"
        if k == 1:
            return b"\xff" + b"\0" * 8
        return b"\0"

    def arr2_raw(self, elems, opt):
        if not elems:
            return b"" if opt else self.empty2()
        body = tl2size(len(elems)) + b"".join(elems)
        return tl2size(len(body)) + body

    def arr2(self, elem, v, cenv, opt):
        return self.arr2_raw([self.enc2(elem, e, cenv, False) for e in v], opt)

    def obj2(self, body, opt):
        if not body:
            return b"" if opt else self.empty2()
        return tl2size(len(body)) + body

    def body2(self, items, cenv, variant_index=0):
        """items: (type, value | ABSENT, masked, array?) in slot order; returns the object body (mask blocks + field bytes)"""
        blocks = [[0, b""]]
        if variant_index:
            blocks[0][0] |= 1
            blocks[0][1] += tl2size(variant_index)
        for i, (t, v, masked, is_arr) in enumerate(items):
            slot = i + 1
            while len(blocks) <= slot // 8:
                blocks.append([0, b""])
            if v is ABSENT:
                continue
            if is_arr:
                enc = lambda o: self.arr2(t, v, cenv, o)
            else:
                enc = lambda o: self.enc2(t, v, cenv, o)
            if masked:
                data = b"" if (t.kind == "true" and not is_arr) else enc(False)
                setbit = True
            else:
                data = enc(True)
                setbit = bool(data)
                if not data and self.alt2 is not None and self.alt2.chance(1, 3):
                    data = enc(False)  # an empty field given explicitly: presence bit set, value written out
                    setbit = True
            if setbit:
                blocks[slot // 8][0] |= 1 << (slot % 8)
                blocks[slot // 8][1] += data
        while blocks and blocks[-1][0] == 0 and not blocks[-1][1]:
            if self.alt2 is not None and blocks[0][0] | len(blocks) > 1 and self.alt2.chance(1, 3):
                break  # explicit zero presence mask kept at the end of the body
            blocks.pop()
        return b"".join(bytes([m]) + dta for m, dta in blocks)

    def fields_items2(self, vals):
        return [(f.typ, v, bool(f.mask), (f.arr is not None) or None) for f, v in vals]

    def enc2_decl(self, d, v, cenv, opt):
        if v[0] == "typedef":
            return self.enc2(d.inner, v[1], cenv, opt)
        if v[0] == "struct":
            return self.obj2(self.body2(self.fields_items2(v[1]), cenv), opt)
        return self.obj2(self.body2(self.fields_items2(v[2]), cenv, variant_index=v[1]), opt)

    def encode_item_tl2(self, d, v):
        self.saw_negative_zero = False
        return self.enc2_decl(d, v, {}, False)

    def encode_function(self, fn, vals):
        out = [struct.pack("<I", fn.tag)]
        self.enc_fields(vals, out)
        return b"".join(out)

    # ---- decoding (strict: the documented TL1 is canonical) -----------------------------------
    def dec(self, t, buf, pos, env):
        k = t.kind

        def need(n):
            if pos + n > len(buf):
                raise RefError("eof")

        def tag(expected):
            need(4)
            x = struct.unpack_from("<I", buf, pos)[0]
            if x != expected:
                raise RefError("tag %08x != %08x" % (x, expected))
            return pos + 4

        if k == "prim":
            return self.dec_prim(t.name, buf, pos)
        if k == "boxedprim":
            pos = tag(TAG[t.name])
            return self.dec_prim(t.name.lower(), buf, pos)
        if k == "nat":
            need(4)
            return struct.unpack_from("<I", buf, pos)[0], pos + 4
        if k == "bool":
            need(4)
            x = struct.unpack_from("<I", buf, pos)[0]
            if x == TAG["boolTrue"]:
                return True, pos + 4
            if x == TAG["boolFalse"]:
                return False, pos + 4
            raise RefError("bool tag")
        if k == "true":
            if t.boxed:
                pos = tag(TAG["True"])
            return True, pos
        if k == "vector":
            if t.form == "boxed":
                pos = tag(TAG["Vector"])
            if pos + 4 > len(buf):
                raise RefError("eof")
            n = struct.unpack_from("<I", buf, pos)[0]
            pos += 4
            return self.dec_n(t.elem, n, buf, pos, env)
        if k == "tuple":
            if t.boxed:
                pos = tag(TAG["Tuple"])
            return self.dec_n(t.elem, t.size.eval(env), buf, pos, env)
        if k == "maybe":
            need(4)
            x = struct.unpack_from("<I", buf, pos)[0]
            if x == TAG["resultFalse"]:
                return None, pos + 4
            if x == TAG["resultTrue"]:
                v, pos = self.dec(t.elem, buf, pos + 4, env)
                return ("some", v), pos
            raise RefError("maybe tag")
        if k == "dict":
            if t.boxed:
                pos = tag(TAG["Dictionary"] if t.key == "str" else TAG["IntKeyDictionary"])
            if pos + 4 > len(buf):
                raise RefError("eof")
            n = struct.unpack_from("<I", buf, pos)[0]
            pos += 4
            if n > len(buf) - pos:
                raise RefError("count")
            out = []
            for _ in range(n):
                key, pos = self.dec_prim("string" if t.key == "str" else "int", buf, pos)
                val, pos = self.dec(t.elem, buf, pos, env)
                out.append((key, val))
            ks = [kv[0] if t.key == "str" else struct.unpack("<i", kv[0])[0] for kv in out]
            if any(not (a < b) for a, b in zip(ks, ks[1:])):
                self.unsorted_dict = True  # map-backed dictionaries are re-emitted sorted and de-duplicated by the implementation
            return out, pos
        if k == "pair":
            if t.boxed:
                pos = tag(TAG["Pair"])
            a, pos = self.dec(t.a, buf, pos, env)
            b, pos = self.dec(t.b, buf, pos, env)
            return (a, b), pos
        d = t.decl
        penv = {p: a.eval(env) for (p, _), a in zip(d.params, t.args)}
        return self.dec_decl(d, buf, pos, penv, boxed=not t.bare)

    def dec_n(self, elem, n, buf, pos, env):
        if n > (len(buf) - pos) + 64 and elem.kind not in ("true",):
            # the model has no length heuristics; a count that cannot possibly fit is an error for non-empty elements
            pass
        out = []
        for _ in range(n):
            if len(out) > 100000:
                raise RefError("too many")
            v, pos = self.dec(elem, buf, pos, env)
            out.append(v)
        return out, pos

    def dec_prim(self, name, buf, pos):
        size = {"int": 4, "long": 8, "float": 4, "double": 8}.get(name)
        if size:
            if pos + size > len(buf):
                raise RefError("eof")
            return bytes(buf[pos:pos + size]), pos + size
        if pos >= len(buf):
            raise RefError("eof")
        b0 = buf[pos]
        if b0 <= 253:
            n, hdr = b0, 1
        elif b0 == 254:
            if pos + 4 > len(buf):
                raise RefError("eof")
            n, hdr = int.from_bytes(buf[pos + 1:pos + 4], "little"), 4
            if n <= 253:
                raise RefError("non-minimal")
        else:
            if pos + 8 > len(buf):
                raise RefError("eof")
            n, hdr = int.from_bytes(buf[pos + 1:pos + 8], "little"), 8
            if n < 1 << 24:
                raise RefError("non-minimal")
        total = hdr + n
        pad = -total % 4
        if pos + total + pad > len(buf):
            raise RefError("eof")
        if any(buf[pos + total:pos + total + pad]):
            raise RefError("padding")
        return bytes(buf[pos + hdr:pos + total]), pos + total + pad

    def dec_fields(self, fields, buf, pos, penv, missing_nat_from=None):
        env = dict(penv)
        vals = []
        for fi, f in enumerate(fields):
            if missing_nat_from is not None and fi >= missing_nat_from and pos >= len(buf) and f.typ.kind == "nat" and f.arr is None and not f.mask:
                # an appended function argument that is a field mask: old requests end here, the mask reads as zero
                env[f.name] = 0
                vals.append((f, ABSENT))
                continue
            present = True
            if f.mask:
                mv = env.get(f.mask[0].val, 0)
                present = (mv >> f.mask[1]) & 1 == 1
            if not present:
                vals.append((f, ABSENT))
                if f.typ.kind == "nat":
                    env[f.name] = 0
                continue
            if f.arr is not None:
                v, pos = self.dec_n(f.typ, f.arr.eval(env), buf, pos, env)
            else:
                v, pos = self.dec(f.typ, buf, pos, env)
            if f.typ.kind == "nat" and f.arr is None:
                env[f.name] = v
            vals.append((f, v))
        return vals, pos

    def dec_decl(self, d, buf, pos, penv, boxed):
        if d.kind in ("union", "enum"):
            if pos + 4 > len(buf):
                raise RefError("eof")
            x = struct.unpack_from("<I", buf, pos)[0]
            for ci, c in enumerate(d.constructors):
                if c.tag == x:
                    vals, pos = self.dec_fields(c.fields, buf, pos + 4, penv)
                    return ("union", ci, vals), pos
            raise RefError("union tag")
        c = d.constructors[0]
        if boxed:
            if pos + 4 > len(buf):
                raise RefError("eof")
            if struct.unpack_from("<I", buf, pos)[0] != c.tag:
                raise RefError("tag")
            pos += 4
        if d.kind == "typedef":
            v, pos = self.dec(d.inner, buf, pos, penv)
            return ("typedef", v), pos
        vals, pos = self.dec_fields(c.fields, buf, pos, penv)
        return ("struct", vals), pos

    def decode_item(self, d, buf, boxed):
        """returns (value, consumed) or raises RefError"""
        v, pos = self.dec_decl(d, buf, 0, {}, boxed or d.kind in ("union", "enum"))
        return v, pos


def param_mask_bits(d, pname, seen=None):
    """bits of template parameter pname that the declaration d, or a template it forwards the parameter to, uses as field-mask bits"""
    seen = seen if seen is not None else set()
    if (id(d), pname) in seen:
        return set()
    seen.add((id(d), pname))
    out = set()
    for c in d.constructors:
        for f in c.fields:
            if f.mask and f.mask[0].kind == "param" and f.mask[0].val == pname:
                out.add(f.mask[1])
            for t in _walk_t(f.typ):
                if t.kind == "ref":
                    for (p2, _), a in zip(t.decl.params, t.args):
                        if a.kind == "param" and a.val == pname:
                            out |= param_mask_bits(t.decl, p2, seen)
    return out


def _walk_t(t):
    yield t
    for sub in ("elem", "a", "b"):
        x = getattr(t, sub, None)
        if isinstance(x, T):
            yield from _walk_t(x)


def forwarded_mask_bits(t):
    """[(local '#' field name, bits)] for every template reference inside type expression t that receives a field as argument"""
    out = []
    for x in _walk_t(t):
        if x.kind == "ref":
            for (p2, _), a in zip(x.decl.params, x.args):
                if a.kind == "field":
                    bits = param_mask_bits(x.decl, p2)
                    if bits:
                        out.append((a.val, bits))
    return out


def nat_is_used(fields, name):
    """is the nat field referenced by a later field (mask, array size, tuple size, template argument)"""
    def in_type(t):
        k = t.kind
        if k == "tuple" and t.size.kind == "field" and t.size.val == name:
            return True
        if k == "ref" and any(a.kind == "field" and a.val == name for a in t.args):
            return True
        for sub in ("elem", "a", "b"):
            x = getattr(t, sub, None)
            if isinstance(x, T) and in_type(x):
                return True
        return False
    for f in fields:
        if f.mask and f.mask[0].val == name:
            return True
        if f.arr is not None and f.arr.kind == "field" and f.arr.val == name:
            return True
        if in_type(f.typ):
            return True
    return False


def fixed_shapes():
    """shapes random schemas reach rarely: presence bits in the second mask block, objects that carry only flags (local and external masks),
    long strings next to them"""
    s = Schema()
    tag = [0x0f1e0000]

    def add(base, fields, params=()):
        d = Decl("struct", "vz", base, list(params))
        tag[0] += 1
        d.constructors.append(Constructor(d.lname, tag[0], True, fields))
        s.decls.append(d)
        return d

    def nat(name, role="mask"):
        f = Field(name, T("nat"))
        f.role = role
        return f
    i32 = lambda: T("prim", name="int", spelling="int")
    st = lambda: T("prim", name="string", spelling="string")
    tr = lambda: T("true", boxed=False)
    m = lambda fld, bit, kind="field": (NatExpr(kind, fld), bit)
    add("wide", [nat("fm")] + [Field(n, i32()) for n in "abcdef"] + [Field("h", tr(), m("fm", 0)), Field("i", tr(), m("fm", 1)), Field("j", i32(), m("fm", 2)), Field("k", tr(), m("fm", 31))])
    add("wider", [nat("fm")] + [Field("f%d" % i, st(), m("fm", i)) for i in range(14)] + [Field("t14", tr(), m("fm", 14)), Field("t15", tr(), m("fm", 15)), Field("t16", tr(), m("fm", 16))])
    ext = add("extFlags", [Field("a", i32(), m("m", 0, "param")), Field("b", st(), m("m", 1, "param")), Field("c", tr(), m("m", 2, "param")), Field("d", tr(), m("m", 3, "param"))], [("m", "mask")])
    add("useExt", [nat("n"), Field("e", T("ref", decl=ext, bare=True, pct=False, args=[NatExpr("field", "n")])), Field("tail", i32())])
    add("useExtVec", [nat("n"), Field("es", T("vector", elem=T("ref", decl=ext, bare=True, pct=False, args=[NatExpr("field", "n")]), form="bare"))])
    add("flagsOnly", [nat("fm"), Field("p", tr(), m("fm", 0)), Field("q", tr(), m("fm", 5))])
    emp = add("empty", [])
    add("useEmpty", [Field("a", i32()), Field("e", T("ref", decl=emp, bare=True, pct=False, args=[])), Field("t", tr()), Field("u", T("true", boxed=True)), Field("b", i32()), Field("s", st()),
                     Field("es", T("vector", elem=T("ref", decl=emp, bare=True, pct=False, args=[]), form="bare")), Field("c", i32())])
    ft = add("flagsTail", [nat("fm"), Field("x", i32()), Field("ok", T("true", boxed=True), m("fm", 0))])
    add("flagsTail2", [nat("fm"), Field("x", st()), Field("a", T("true", boxed=True), m("fm", 0)), Field("b", T("true", boxed=True), m("fm", 3)), Field("c", tr(), m("fm", 4))])
    add("holderTail", [Field("v", T("vector", elem=T("ref", decl=ft, bare=True, pct=False, args=[]), form="bare")), Field("w", T("ref", decl=ft, bare=False, pct=False, args=[]))])
    add("bigstr", [Field("s", st()), Field("t", T("vector", elem=st(), form="bare")), Field("u", T("dict", key="str", elem=i32(), boxed=False))])

    # '# x:[T]' pairs (merged into one field by the kernel) followed by '#' fields that later fields refer to as sizes and masks
    def pair(name, elem):
        f = Field(name, T("vector", elem=elem, form="bare"))
        f.anon = True
        return f
    add("pairThenNats", [pair("xs", i32()), nat("n", "size"), nat("fm"), Field("ys", i32(), arr=NatExpr("field", "n")), Field("opt", st(), m("fm", 0)), Field("flag", tr(), m("fm", 1)), Field("tail", i32())])
    add("twoPairsThenNats", [Field("a", i32()), pair("xs", st()), pair("zs", i32()), nat("n", "size"), nat("k", "size"), nat("fm"), Field("ys", i32(), arr=NatExpr("field", "n")),
                             Field("ws", st(), arr=NatExpr("field", "k")), Field("opt", i32(), m("fm", 2))])
    add("natPairNat", [nat("n", "size"), pair("xs", i32()), nat("k", "size"), Field("ys", i32(), arr=NatExpr("field", "n")), Field("ws", i32(), arr=NatExpr("field", "k"))])
    return s


def generate(seed, label="schema", **kw):
    return Gen(seed, label, **kw).generate()


# ------------------------------------------------------------------------------------------ static facts used by oracles

def min_size(t, seen=None):
    """smallest number of bytes an encoding of the type expression can take"""
    seen = seen or set()
    k = t.kind
    if k == "prim":
        return {"int": 4, "long": 8, "float": 4, "double": 8, "string": 4}[t.name]
    if k == "boxedprim":
        return 4 + {"Int": 4, "Long": 8, "Float": 4, "Double": 8, "String": 4}[t.name]
    if k in ("nat", "bool", "maybe"):
        return 4
    if k == "true":
        return 4 if t.boxed else 0
    if k == "vector":
        return 4 + (4 if t.form == "boxed" else 0)
    if k == "dict":
        return 4 + (4 if t.boxed else 0)
    if k == "tuple":
        n = t.size.val if t.size.kind == "const" else 0
        return n * min_size(t.elem, seen) + (4 if t.boxed else 0)
    if k == "pair":
        return min_size(t.a, seen) + min_size(t.b, seen) + (4 if t.boxed else 0)
    d = t.decl
    if d.kind in ("union", "enum"):
        return 4
    base = 0 if t.bare else 4
    if id(d) in seen:
        return base
    seen = seen | {id(d)}
    if d.kind == "typedef":
        return base + min_size(d.inner, seen)
    tot = 0
    for f in d.constructors[0].fields:
        if f.mask:
            continue
        if f.arr is not None:
            n = f.arr.val if f.arr.kind == "const" else 0
            tot += n * min_size(f.typ, seen)
        else:
            tot += min_size(f.typ, seen)
    return base + tot


def has_small_element_arrays(d, seen=None):
    """does the type graph of the declaration contain a counted array whose elements can take less than 4 bytes
    (where the generated length-sanity heuristic 'min object size 4' rejects valid input, finding F2)"""
    seen = seen if seen is not None else set()
    if id(d) in seen:
        return False
    seen.add(id(d))

    def tcheck(t):
        k = t.kind
        if k in ("vector", "tuple"):
            if min_size(t.elem) < 4:
                return True
            return tcheck(t.elem)
        if k == "dict":
            return tcheck(t.elem)
        if k == "maybe":
            return tcheck(t.elem)
        if k == "pair":
            return tcheck(t.a) or tcheck(t.b)
        if k == "ref":
            return has_small_element_arrays(t.decl, seen)
        return False

    if isinstance(d, Function):
        for f in d.fields:
            if (f.arr is not None and min_size(f.typ) < 4) or tcheck(f.typ):
                return True
        return tcheck(d.result)
    if d.kind == "typedef":
        return tcheck(d.inner)
    for c in d.constructors:
        for f in c.fields:
            if f.arr is not None and min_size(f.typ) < 4:
                return True
            if tcheck(f.typ):
                return True
    return False
