"""C15 code generation is deterministic (engine C: byte comparison of complete output trees)."""
import os
import shutil

from .. import core, gen

TLS = gen.TLS


CYCLES = """
dia.aaa l:(Maybe dia.left) r:(Maybe dia.right) = dia.Aaa;
dia.left m:# t:m.0?dia.aaa = dia.Left;
dia.right m:# t:m.0?dia.aaa = dia.Right;
dib.top a:(Maybe dib.one) b:(Maybe dib.two) c:(Maybe dib.three) = dib.Top;
dib.one m:# t:m.0?dib.base = dib.One;
dib.two m:# t:m.1?dib.base = dib.Two;
dib.three m:# t:m.2?dib.base u:m.3?dib.two = dib.Three;
dib.base m:# back:m.0?dib.top = dib.Base;
ring.a m:# n:m.0?ring.b = ring.A;
ring.b m:# n:m.0?ring.c = ring.B;
ring.c m:# n:m.0?ring.a = ring.C;
xns.alpha m:# o:m.0?yns.beta p:m.1?zns.gamma = xns.Alpha;
yns.beta m:# o:m.0?zns.gamma q:m.1?xns.alpha = yns.Beta;
zns.gamma m:# o:m.0?xns.alpha r:m.1?yns.beta = zns.Gamma;
self.node v:int kids:(vector self.node) = self.Node;
---functions---
@read dia.get x:dia.aaa = dib.Top;
@read ring.get x:ring.a = xns.Alpha;
"""


def ties_schema():
    """the same local names in many namespaces: every place where generated code is ordered by a name must use one that is unique"""
    nss = ["na", "nb", "nc", "nd", "ne", "nf", "ng", "nh"]
    t, f = [], []
    for i, ns in enumerate(nss):
        t.append("%s.item {m:#} x:m.0?int y:m.1?string z:m.0?long = %s.Item m;" % (ns, ns))
        t.append("%s.box {t:Type} v:t = %s.Box t;" % (ns, ns))
        t.append("%s.kindOne = %s.Kind;\n%s.kindTwo a:int = %s.Kind;" % (ns, ns, ns, ns))
        t.append("%s.pair m:# a:m.0?%s.item_plain b:m.0?int = %s.Pair;\n%s.item_plain id:int = %s.ItemPlain;" % (ns, ns, ns, ns, ns))
        f.append("@read %s.get mask:# = %s.Item mask;" % (ns, ns))
        f.append("@read %s.getBoxes mask:# = Vector (%s.Box (%s.item mask));" % (ns, ns, ns))
    t.append("everything {m:#} " + " ".join("i%d:(%s.item m) b%d:(%s.box int) k%d:%s.Kind" % (i, ns, i, ns, i, ns) for i, ns in enumerate(nss)) + " = Everything m;")
    t.append("everythingRev {m:#} " + " ".join("i%d:(%s.item m)" % (i, ns) for i, ns in reversed(list(enumerate(nss)))) + " = EverythingRev m;")
    f.append("@read getEverything mask:# = Everything mask;")
    f.append("@read getEverythingRev mask:# = EverythingRev mask;")
    f.append("@read getMaybe mask:# = Maybe (Everything mask);")
    return "\n".join(t) + "\n---functions---\n" + "\n".join(f) + "\n"


def tree(root):
    if os.path.isfile(root):
        return {"<file>": core.sha(root)}
    return core.tree_hash(root)


def run(ctx):
    thorough = ctx.tier == "thorough"
    ctx.make_scratch()
    tl2gen = gen.tool(ctx, "tl2gen")
    tlgen = gen.tool(ctx, "tlgen")
    base = os.path.join(ctx.scratch, "internal", "vgen")
    os.makedirs(base, exist_ok=True)
    rs = core.stream(ctx.seed, "c15")
    sets = {"goldmaster": gen.REPO_SETS["goldmaster"], "cases": gen.REPO_SETS["cases"]}
    if thorough:
        sets["schema"] = gen.REPO_SETS["schema"]
        sets["casestl2"] = gen.REPO_SETS["casestl2"]
    # a directory holding the goldmaster files: inputs may be given as a directory too
    gm_dir = os.path.join(ctx.work, "gmdir")
    os.makedirs(gm_dir)
    for f in gen.REPO_SETS["goldmaster"]:
        shutil.copy(os.path.join(ctx.scratch, f), gm_dir)
    # crafted inputs: import cycles of several shapes (rings, diamonds: the merge order of --split-internal comes from map iteration), and two
    # directories that hold files of the same name (the order of equal relative names must not come from the command line)
    from .. import schemagen
    cyc = os.path.join(ctx.work, "cycles.tl")
    open(cyc, "w").write(schemagen.PRELUDE + CYCLES)
    sets["cycles"] = [cyc]
    ties = os.path.join(ctx.work, "ties.tl")
    open(ties, "w").write(schemagen.PRELUDE + ties_schema())
    sets["ties"] = [ties]
    sn = os.path.join(ctx.work, "samenames")
    for d, ns in (("svcA", "sva"), ("svcB", "svb"), ("svcC", "svc")):
        os.makedirs(os.path.join(sn, d, "api"))
        open(os.path.join(sn, d, "common.tl"), "w").write("%s.item#%08x id:int name:string = %s.Item;\n%s.pair a:%s.item b:%s.item = %s.Pair;\n" % (ns, 0x51000000 + len(d) + ord(d[-1]), ns, ns, ns, ns, ns))
        open(os.path.join(sn, d, "api", "functions.tl"), "w").write("---functions---\n@read %s.getItem id:int = %s.Item;\n@write %s.putPair p:%s.pair = Bool;\n" % (ns, ns, ns, ns))
    open(os.path.join(sn, "prelude.tl"), "w").write(schemagen.PRELUDE)
    sets["samenames"] = [os.path.join(sn, "prelude.tl"), os.path.join(sn, "svcA"), os.path.join(sn, "svcB"), os.path.join(sn, "svcC")]
    langs = ["go", "go-split", "php", "tlo", "canonical", "tljson.html", "cpp"]
    runs = 0
    for sname, files in sets.items():
        absfiles = [os.path.join(ctx.scratch, f) for f in files]
        for lang in langs:
            outs = []
            variants = [(16, 0), (1, 1), (2, 2)] + ([(16, 3), (4, 4), (1, 5)] if thorough else [])
            if sname == "cycles":
                if lang not in ("go", "go-split", "tlo"):
                    continue
                variants = [(16, 0)] * (12 if thorough else 6) if lang == "go-split" else [(16, 0), (1, 0)]
            if sname == "ties":
                if lang not in ("go", "go-split", "php", "tlo"):
                    continue
                variants = [(16, 0)] * (16 if thorough else 8) if lang in ("go", "go-split") else [(16, 0), (1, 0), (16, 0)]
            if sname == "samenames":
                if lang in ("php", "cpp", "tljson.html"):
                    continue
                variants = [(16, 0), (16, 1), (16, 2), (16, 3), (16, 4)]
            for vi, (gmp, perm) in enumerate(variants):
                inputs = list(absfiles)
                if perm:
                    r2 = rs.fork("%s/%s/%d" % (sname, lang, perm))
                    r2.shuffle(inputs)
                    if perm % 2 == 0:
                        inputs.reverse()
                if sname == "goldmaster" and perm == 2 and lang not in ("cpp", "canonical", "tljson.html"):  # those two print the input path
                    inputs = [gm_dir]
                out = os.path.join(base, "d_%s_%s_%d" % (sname, lang.replace(".", "_").replace("-", "_"), vi), "out")
                os.makedirs(os.path.dirname(out), exist_ok=True)
                pkg_rel = "internal/vgen/det/out"  # identical package path for every run: only the location differs
                if lang in ("go", "go-split"):
                    cmd = [tl2gen, "--language=go", "--tl2WhiteList=*", "--generateRandomCode", "--generateRPCCode", "--generateByteVersions=*", "--outdir=" + out,
                           "--pkgPath=%s/%s/tl" % (core.MODULE, pkg_rel), "--basicPkgPath=%s/pkg/basictl" % core.MODULE, "--basicRPCPath=%s/pkg/rpc" % core.MODULE,
                           "--schemaTimestamp=1700000000", "--schemaCommit=abcdef", "--schemaURL=https://example.invalid/s.tl"]
                    if lang == "go-split":
                        cmd.append("--split-internal")
                elif lang == "php":
                    cmd = [tl2gen, "--language=php", "--tl2WhiteList=*", "--outdir=" + out, "--schemaTimestamp=1700000000", "--php-serialization-bodies", "--php-generate-meta", "--php-generate-factory", "--php-use-builtin-data-providers"]
                elif lang == "cpp":
                    if sname != "cases":
                        continue
                    cmd = [tlgen, "--language=cpp", "--outdir=" + out, "--schemaTimestamp=1700000000", "--cpp-generate-meta", "--cpp-generate-factory"]
                else:
                    cmd = [tl2gen, "--language=" + lang, "--outfile=" + out, "--schemaTimestamp=1700000000", "--schemaCommit=abcdef", "--schemaURL=https://example.invalid/s.tl"]
                r = ctx.run(cmd + inputs, cwd=ctx.scratch, env={"GOMAXPROCS": str(gmp)}, timeout=900)
                runs += 1
                if r.rc != 0:
                    if vi == 0:
                        ctx.note("%s/%s not generated (rc=%d): %s" % (sname, lang, r.rc, r.tail(200).replace("\n", " ")))
                        break
                    ctx.violation({"oracle": "determinism", "class": "acceptance-differs", "schema": sname, "config": lang},
                                  "run %d (GOMAXPROCS=%d, permutation %d) of %s/%s failed while run 0 succeeded: %s" % (vi, gmp, perm, sname, lang, r.tail(300)))
                    continue
                outs.append((vi, gmp, perm, tree(out)))
                ctx.count()
                if os.path.isdir(out):
                    shutil.rmtree(out)
                elif os.path.exists(out):
                    os.remove(out)
            for (vi, gmp, perm, t) in outs[1:]:
                t0 = outs[0][3]
                if t != t0:
                    diff = sorted(k for k in set(t) | set(t0) if t.get(k) != t0.get(k))
                    ctx.violation({"oracle": "determinism", "class": "output-differs", "schema": sname, "config": lang},
                                  "%s/%s: run %d (GOMAXPROCS=%d, input permutation %d) differs from run 0 in %d files: %s" % (sname, lang, vi, gmp, perm, len(diff), diff[:6]))
                ctx.distinct("%s/%s/%d/%d" % (sname, lang, gmp, perm))
            if outs:
                ctx.sample({"schema": sname, "language": lang, "files": len(outs[0][3]), "runs_compared": len(outs)}, cap=12)
    ctx.cov["rule"] = ("for each repository schema set x output kind (go, go --split-internal, php with bodies, tlo, canonical, tljson.html, cpp via tlgen for cases.tl): "
                       "3 (thorough 6) runs with GOMAXPROCS in {16,1,2,4}, the input files permuted/reversed and (goldmaster) given as a directory; explicit non-zero "
                       "--schemaTimestamp; complete output trees compared byte for byte (path + sha256) against run 0. Go's randomized map iteration is "
                       "inherent to every run. Crafted inputs: a schema of import cycles (diamonds, rings, across namespaces) generated 6 (12) times with --split-internal; a schema with the same local names "
                       "(templates with masks, unions, functions passing a mask to their result) in eight namespaces generated 8 (16) times; three "
                       "directories holding files of the same relative names given in 5 orders. distinct_nontrivial = distinct (schema, output kind, GOMAXPROCS, permutation) compared.")
    ctx.require("generator runs", runs, 30)
    ctx.require("compared runs", len(ctx._distinct), 20)
