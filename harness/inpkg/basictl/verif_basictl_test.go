//go:build verif

// In-package monitors for pkg/basictl (C33): exact layout of TL1 strings, TL2 sizes,
// TL2 strings and bit vectors against an independent layout model.
package basictl

import (
	"bytes"
	"encoding/json"
	"errors"
	"fmt"
	"io"
	"math/rand"
	"os"
	"strconv"
	"testing"
)

func vEnvInt(name string, def int) int {
	if s := os.Getenv(name); s != "" {
		if v, err := strconv.Atoi(s); err == nil {
			return v
		}
	}
	return def
}

func vEmit(v map[string]any) {
	b, _ := json.Marshal(v)
	fmt.Printf("@@%s\n", b)
}

type vStats struct {
	counters map[string]int
	distinct map[string]bool
	samples  []any
	viol     int
}

func (s *vStats) violation(oracle, class, desc string) {
	s.viol++
	if s.viol > 30 {
		return
	}
	vEmit(map[string]any{"t": "violation", "oracle": oracle, "class": class, "desc": desc})
}

func (s *vStats) done(name string) {
	vEmit(map[string]any{"t": "summary", "name": name, "counters": s.counters, "distinct": len(s.distinct), "samples": s.samples, "violations": s.viol})
}

// ---- independent layout model (from the documents)

// TL1 string: length 0..253: 1 byte; 254..2^24-1: 0xfe + 3 bytes LE; larger: 0xff + 7 bytes LE;
// content; zero padding so that the total is a multiple of 4.
func mTL1String(content []byte) []byte {
	l := len(content)
	var out []byte
	switch {
	case l <= 253:
		out = append(out, byte(l))
	case l < 1<<24:
		out = append(out, 0xfe, byte(l), byte(l>>8), byte(l>>16))
	default:
		out = append(out, 0xff, byte(l), byte(l>>8), byte(l>>16), byte(l>>24), byte(l>>32), byte(l>>40), byte(l>>48))
	}
	out = append(out, content...)
	for len(out)%4 != 0 {
		out = append(out, 0)
	}
	return out
}

// TL2 size: 0..253: 1 byte; 254..254+65535: 0xfe + u16(l-254); else 0xff + u64.
func mTL2Size(l int) []byte {
	switch {
	case l < 254:
		return []byte{byte(l)}
	case l < 254+65536:
		v := l - 254
		return []byte{0xfe, byte(v), byte(v >> 8)}
	default:
		out := []byte{0xff}
		for i := 0; i < 8; i++ {
			out = append(out, byte(uint64(l)>>(8*i)))
		}
		return out
	}
}

func mBits(v []bool) []byte {
	out := make([]byte, (len(v)+7)/8)
	for i, b := range v {
		if b {
			out[i/8] |= 1 << (i % 8)
		}
	}
	return out
}

func vContent(r *rand.Rand, l int, buf []byte) []byte {
	if cap(buf) < l {
		buf = make([]byte, l)
	}
	buf = buf[:l]
	// cheap deterministic fill with some zero and 0xff bytes near the end (padding confusion)
	x := r.Uint32()
	for i := range buf {
		x = x*1664525 + 1013904223
		buf[i] = byte(x >> 24)
	}
	if l > 0 && r.Intn(3) == 0 {
		buf[l-1] = 0
	}
	return buf
}

var vSuffix = []byte{0xde, 0xad, 0xbe, 0xef, 0x01}

// vDirty is a copy of prefix with spare capacity that holds non-zero bytes (a reused or pooled buffer)
func vDirty(prefix []byte, spare int, fill byte) []byte {
	b := make([]byte, len(prefix)+spare)
	for i := range b {
		b[i] = fill
	}
	copy(b, prefix)
	return b[:len(prefix)]
}

func vCheckTL1String(st *vStats, r *rand.Rand, l int, content []byte, full bool) {
	want := mTL1String(content)
	prefix := []byte{0x11, 0x22}
	// writers
	got := StringWriteBytes(append([]byte{}, prefix...), content)
	if !bytes.Equal(got[2:], want) || !bytes.Equal(got[:2], prefix) {
		st.violation("tl1-string-write", "layout", fmt.Sprintf("StringWriteBytes(len %d): head % x, model % x", l, got[2:min(len(got), 12)], want[:min(len(want), 10)]))
		return
	}
	for _, fill := range []byte{0xff, 0xa5} {
		d1 := StringWriteBytes(vDirty(prefix, len(want)+9, fill), content)
		d2 := StringWrite(vDirty(prefix, len(want)+9, fill), string(content))
		if !bytes.Equal(d1, got) || !bytes.Equal(d2, got) {
			st.violation("tl1-string-write", "dirty-buffer", fmt.Sprintf("StringWrite[Bytes](len %d) into a buffer whose spare capacity holds %#x bytes differs from the write into a fresh buffer", l, fill))
			return
		}
	}
	gots := StringWrite(append([]byte{}, prefix...), string(content))
	if !bytes.Equal(gots, got) {
		st.violation("tl1-string-write", "string-vs-bytes", fmt.Sprintf("StringWrite and StringWriteBytes differ for length %d", l))
		return
	}
	wl, pad := StringWriteLen(nil, l)
	wl = append(wl, content...)
	wl = StringWritePadding(wl, pad)
	if !bytes.Equal(wl, want) {
		st.violation("tl1-string-write", "writelen", fmt.Sprintf("StringWriteLen+StringWritePadding differ from the model for length %d (padding %d)", l, pad))
		return
	}
	st.counters["tl1_string_written"]++
	// readers: exact content, exact consumed length (suffix must come back untouched)
	in := append(append([]byte{}, want...), vSuffix...)
	var s string
	rest, err := StringRead(in, &s)
	if err != nil || s != string(content) || !bytes.Equal(rest, vSuffix) {
		st.violation("tl1-string-read", "exact", fmt.Sprintf("StringRead(len %d): err=%v, content equal=%v, rest len %d (want %d)", l, err, s == string(content), len(rest), len(vSuffix)))
		return
	}
	dst := make([]byte, r.Intn(8), 16) // dirty reused destination
	for i := range dst {
		dst[i] = 0xcc
	}
	rest, err = StringReadBytes(in, &dst)
	if err != nil || !bytes.Equal(dst, content) || !bytes.Equal(rest, vSuffix) {
		st.violation("tl1-string-read", "exact-bytes", fmt.Sprintf("StringReadBytes(len %d): err=%v, content equal=%v, rest len %d", l, err, bytes.Equal(dst, content), len(rest)))
		return
	}
	st.counters["tl1_string_read"]++
	if !full {
		return
	}
	// truncations: every strict prefix must be an unexpected-EOF error
	step := 1
	if len(want) > 2000 {
		step = len(want)/300 + 1
	}
	for cut := 0; cut < len(want); cut += step {
		_, err := StringRead(want[:cut], &s)
		d2 := dst[:0]
		_, err2 := StringReadBytes(want[:cut], &d2)
		st.counters["tl1_truncations"]++
		if !errors.Is(err, io.ErrUnexpectedEOF) || !errors.Is(err2, io.ErrUnexpectedEOF) {
			st.violation("tl1-string-read", "truncation", fmt.Sprintf("string of length %d truncated to %d of %d bytes: StringRead err=%v, StringReadBytes err=%v (want io.ErrUnexpectedEOF)", l, cut, len(want), err, err2))
			return
		}
	}
	// the last few cuts are always tried (padding region)
	for cut := max(0, len(want)-5); cut < len(want); cut++ {
		_, err := StringRead(want[:cut], &s)
		if !errors.Is(err, io.ErrUnexpectedEOF) {
			st.violation("tl1-string-read", "truncation", fmt.Sprintf("string of length %d truncated to %d of %d bytes: err=%v", l, cut, len(want), err))
			return
		}
	}
	// non-zero padding at every padding position
	hdr := 1
	if l > 253 {
		hdr = 4
	}
	if l >= 1<<24 {
		hdr = 8
	}
	for p := hdr + l; p < len(want); p++ {
		bad := append([]byte{}, want...)
		bad[p] = byte(1 + r.Intn(255))
		_, err := StringRead(bad, &s)
		d2 := dst[:0]
		_, err2 := StringReadBytes(bad, &d2)
		st.counters["tl1_bad_padding"]++
		if err == nil || err2 == nil {
			st.violation("tl1-string-read", "padding", fmt.Sprintf("string of length %d with non-zero padding byte at %d accepted (StringRead err=%v, StringReadBytes err=%v)", l, p, err, err2))
			return
		}
	}
	// non-minimal length forms
	var alts [][]byte
	if l <= 253 {
		a := append([]byte{0xfe, byte(l), byte(l >> 8), byte(l >> 16)}, content...)
		for len(a)%4 != 0 {
			a = append(a, 0)
		}
		alts = append(alts, a)
	}
	if l < 1<<24 {
		a := append([]byte{0xff, byte(l), byte(l >> 8), byte(l >> 16), 0, 0, 0, 0}, content...)
		for len(a)%4 != 0 {
			a = append(a, 0)
		}
		alts = append(alts, a)
	}
	for _, a := range alts {
		_, err := StringRead(a, &s)
		d2 := dst[:0]
		_, err2 := StringReadBytes(a, &d2)
		st.counters["tl1_nonminimal"]++
		if err == nil || err2 == nil {
			st.violation("tl1-string-read", "non-minimal", fmt.Sprintf("non-minimal length form % x for length %d accepted (StringRead err=%v, StringReadBytes err=%v)", a[:min(8, len(a))], l, err, err2))
			return
		}
	}
}

func vCheckTL2Size(st *vStats, l int) {
	want := mTL2Size(l)
	got := TL2WriteSize([]byte{0x77}, l)
	if !bytes.Equal(got[1:], want) || got[0] != 0x77 {
		st.violation("tl2-size", "write", fmt.Sprintf("TL2WriteSize(%d) = % x, model % x", l, got[1:], want))
		return
	}
	if d := TL2WriteSize(vDirty([]byte{0x77}, 12, 0xff), l); !bytes.Equal(d, got) {
		st.violation("tl2-size", "dirty-buffer", fmt.Sprintf("TL2WriteSize(%d) into a buffer with dirty spare capacity = % x, fresh % x", l, d, got))
		return
	}
	buf := make([]byte, 16)
	n := TL2PutSize(buf, l)
	if n != len(want) || !bytes.Equal(buf[:n], want) {
		st.violation("tl2-size", "put", fmt.Sprintf("TL2PutSize(%d) wrote % x (n=%d), model % x", l, buf[:min(n, 16)], n, want))
		return
	}
	if c := TL2CalculateSize(l); c != len(want) {
		st.violation("tl2-size", "calculate", fmt.Sprintf("TL2CalculateSize(%d) = %d, model %d", l, c, len(want)))
		return
	}
	in := append(append([]byte{}, want...), vSuffix...)
	rest, v, err := TL2ParseSize(in)
	if err != nil || v != l || !bytes.Equal(rest, vSuffix) {
		st.violation("tl2-size", "parse", fmt.Sprintf("TL2ParseSize(% x) = %d, err=%v, rest %d bytes; want %d", want, v, err, len(rest), l))
		return
	}
	var v2 int
	rest, err = TL2ReadSize(in, &v2)
	if err != nil || v2 != l || !bytes.Equal(rest, vSuffix) {
		st.violation("tl2-size", "read", fmt.Sprintf("TL2ReadSize(% x) = %d, err=%v", want, v2, err))
		return
	}
	// huge form is legal for any value
	huge := []byte{0xff}
	for i := 0; i < 8; i++ {
		huge = append(huge, byte(uint64(l)>>(8*i)))
	}
	rest, v, err = TL2ParseSize(append(append([]byte{}, huge...), vSuffix...))
	if err != nil || v != l || !bytes.Equal(rest, vSuffix) {
		st.violation("tl2-size", "huge-form", fmt.Sprintf("huge form of %d not accepted exactly: v=%d err=%v rest=%d", l, v, err, len(rest)))
		return
	}
	for cut := 0; cut < len(want); cut++ {
		_, _, err := TL2ParseSize(want[:cut])
		if !errors.Is(err, io.ErrUnexpectedEOF) {
			st.violation("tl2-size", "truncation", fmt.Sprintf("size %d truncated to %d of %d bytes: err=%v", l, cut, len(want), err))
			return
		}
	}
	for cut := 0; cut < 9; cut++ {
		_, _, err := TL2ParseSize(huge[:cut])
		if !errors.Is(err, io.ErrUnexpectedEOF) {
			st.violation("tl2-size", "truncation", fmt.Sprintf("huge size %d truncated to %d bytes: err=%v", l, cut, err))
			return
		}
	}
	st.counters["tl2_sizes"]++
}

func vCheckTL2String(st *vStats, r *rand.Rand, l int, content []byte) {
	want := append(mTL2Size(l), content...)
	got := StringWriteTL2Bytes([]byte{1}, content)
	got2 := StringWriteTL2([]byte{1}, string(content))
	if !bytes.Equal(got[1:], want) || !bytes.Equal(got, got2) {
		st.violation("tl2-string", "write", fmt.Sprintf("StringWriteTL2[Bytes](len %d) differs from model (equal to each other: %v)", l, bytes.Equal(got, got2)))
		return
	}
	for _, fill := range []byte{0xff, 0xa5} {
		d1 := StringWriteTL2Bytes(vDirty([]byte{1}, len(want)+9, fill), content)
		d2 := StringWriteTL2(vDirty([]byte{1}, len(want)+9, fill), string(content))
		if !bytes.Equal(d1, got) || !bytes.Equal(d2, got) {
			st.violation("tl2-string", "dirty-buffer", fmt.Sprintf("StringWriteTL2[Bytes](len %d) into a buffer whose spare capacity holds %#x bytes differs from the write into a fresh buffer", l, fill))
			return
		}
	}
	in := append(append([]byte{}, want...), vSuffix...)
	var s string
	rest, err := StringReadTL2(in, &s)
	if err != nil || s != string(content) || !bytes.Equal(rest, vSuffix) {
		st.violation("tl2-string", "read", fmt.Sprintf("StringReadTL2(len %d): err=%v content equal=%v rest=%d", l, err, s == string(content), len(rest)))
		return
	}
	dst := make([]byte, r.Intn(8), 16)
	rest, err = StringReadTL2Bytes(in, &dst)
	if err != nil || !bytes.Equal(dst, content) || !bytes.Equal(rest, vSuffix) {
		st.violation("tl2-string", "read-bytes", fmt.Sprintf("StringReadTL2Bytes(len %d): err=%v content equal=%v rest=%d", l, err, bytes.Equal(dst, content), len(rest)))
		return
	}
	step := 1
	if len(want) > 2000 {
		step = len(want)/200 + 1
	}
	for cut := 0; cut < len(want); cut += step {
		_, err := StringReadTL2(want[:cut], &s)
		d2 := dst[:0]
		_, err2 := StringReadTL2Bytes(want[:cut], &d2)
		if !errors.Is(err, io.ErrUnexpectedEOF) || !errors.Is(err2, io.ErrUnexpectedEOF) {
			st.violation("tl2-string", "truncation", fmt.Sprintf("TL2 string of length %d truncated to %d of %d: err=%v / %v", l, cut, len(want), err, err2))
			return
		}
	}
	if len(want) > 0 {
		_, err := StringReadTL2(want[:len(want)-1], &s)
		if !errors.Is(err, io.ErrUnexpectedEOF) {
			st.violation("tl2-string", "truncation", fmt.Sprintf("TL2 string of length %d missing its last byte: err=%v", l, err))
			return
		}
	}
	st.counters["tl2_strings"]++
}

func vCheckBits(st *vStats, r *rand.Rand, n int, pattern int) {
	v := make([]bool, n)
	switch pattern {
	case 0:
	case 1:
		for i := range v {
			v[i] = true
		}
	case 2:
		for i := range v {
			v[i] = r.Intn(2) == 0
		}
	default:
		if n > 0 {
			v[r.Intn(n)] = true
		}
	}
	want := mBits(v)
	got := VectorBitContentWriteTL2([]byte{9}, v)
	if !bytes.Equal(got[1:], want) {
		st.violation("bits", "write", fmt.Sprintf("VectorBitContentWriteTL2(%d bits, pattern %d) = % x, model % x", n, pattern, got[1:], want))
		return
	}
	for _, fill := range []byte{0xff, 0xa5, 0x5a} {
		if d := VectorBitContentWriteTL2(vDirty([]byte{9}, len(want)+3, fill), v); !bytes.Equal(d, got) {
			st.violation("bits", "dirty-buffer", fmt.Sprintf("VectorBitContentWriteTL2(%d bits, pattern %d) into a buffer whose spare capacity holds %#x bytes = % x, fresh buffer % x", n, pattern, fill, d[1:], got[1:]))
			return
		}
	}
	out := make([]bool, n)
	for i := range out {
		out[i] = r.Intn(2) == 0 // dirty
	}
	rest, err := VectorBitContentReadTL2(append(append([]byte{}, want...), vSuffix...), out)
	if err != nil || !bytes.Equal(rest, vSuffix) {
		st.violation("bits", "read", fmt.Sprintf("VectorBitContentReadTL2(%d bits): err=%v rest=%d", n, err, len(rest)))
		return
	}
	for i := range v {
		if v[i] != out[i] {
			st.violation("bits", "read", fmt.Sprintf("bit %d of %d read back as %v, written %v", i, n, out[i], v[i]))
			return
		}
	}
	if len(want) > 0 {
		_, err := VectorBitContentReadTL2(want[:len(want)-1], out)
		if !errors.Is(err, io.ErrUnexpectedEOF) {
			st.violation("bits", "truncation", fmt.Sprintf("%d bits with the last byte missing: err=%v", n, err))
			return
		}
	}
	st.counters["bit_vectors"]++
}

func TestVerifC33(t *testing.T) {
	seed := int64(vEnvInt("VERIF_SEED", 1))
	maxLen := vEnvInt("VERIF_MAXLEN", 70000)
	big := vEnvInt("VERIF_BIG", 0)
	stride := vEnvInt("VERIF_STRIDE", 1)
	r := rand.New(rand.NewSource(seed*6700417 + 33))
	st := &vStats{counters: map[string]int{}, distinct: map[string]bool{}}
	var buf []byte
	// exhaustive small range
	for l := 0; l <= maxLen; l++ {
		vCheckTL2Size(st, l)
		st.distinct["len"+strconv.Itoa(l)] = true
		if stride > 1 && l > 3000 && !(l >= 65500 && l <= 66100) && l%stride != 0 {
			continue
		}
		content := vContent(r, l, buf)
		buf = content
		full := l <= 1100 || l%97 == 0 || (l >= 65700 && l <= 65900)
		vCheckTL1String(st, r, l, content, full)
		vCheckTL2String(st, r, l, content)
	}
	st.counters["exhaustive_lengths_upto"] = maxLen
	// boundaries
	bounds := []int{253, 254, 255, 256, 1<<16 - 1, 1 << 16, 1<<16 + 1, 65789 - 1, 65789, 65789 + 1, 65790, 254 + 65535, 254 + 65536, 254 + 65537}
	if big != 0 {
		bounds = append(bounds, 1<<24-2, 1<<24-1, 1<<24, 1<<24+1, 1<<24+3)
	}
	for _, l := range bounds {
		content := vContent(r, l, buf)
		buf = content
		vCheckTL1String(st, r, l, content, true)
		vCheckTL2Size(st, l)
		vCheckTL2String(st, r, l, content)
		st.counters["boundary_lengths"]++
		st.distinct["len"+strconv.Itoa(l)] = true
	}
	// sizes only: large values
	for _, l := range []int{1<<24 - 1, 1 << 24, 1<<31 - 1, 1 << 31, 1<<32 - 1, 1 << 32, 1<<56 - 1, 1<<62 + 12345} {
		vCheckTL2Size(st, l)
		wl, _ := StringWriteLen(nil, min(l, 1<<56-1))
		model := mTL1String(nil)
		_ = model
		if l >= 1<<24 && l < 1<<56 {
			want := []byte{0xff, byte(l), byte(l >> 8), byte(l >> 16), byte(l >> 24), byte(l >> 32), byte(l >> 40), byte(l >> 48)}
			if !bytes.Equal(wl, want) {
				st.violation("tl1-string-write", "huge-header", fmt.Sprintf("StringWriteLen(%d) = % x, model % x", l, wl, want))
			}
		}
	}
	for i := 0; i < 2000; i++ {
		vCheckTL2Size(st, int(r.Int63()>>uint(r.Intn(62))))
	}
	// TL2 size decoding of a value that does not fit an int must be an error, not a wrap
	if _, _, err := TL2ParseSize([]byte{0xff, 0xff, 0xff, 0xff, 0xff, 0xff, 0xff, 0xff, 0xff}); err == nil {
		st.violation("tl2-size", "overflow", "huge size 2^64-1 accepted")
	}
	// bit vectors
	for n := 0; n <= 130; n++ {
		for p := 0; p < 4; p++ {
			for k := 0; k < 3; k++ {
				vCheckBits(st, r, n, p)
			}
		}
	}
	for i := 0; i < 300; i++ {
		vCheckBits(st, r, r.Intn(5000), 2)
	}
	st.samples = append(st.samples, map[string]any{"len": 254, "tl1": fmt.Sprintf("% x...", mTL1String(make([]byte, 254))[:6]), "tl2size": fmt.Sprintf("% x", mTL2Size(254))},
		map[string]any{"len": 65790, "tl2size": fmt.Sprintf("% x", mTL2Size(65790))})
	st.done("basictl")
}
