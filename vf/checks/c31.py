"""C31 C++ generated serializers agree with the Go serializers (engine J: tlgen --language=cpp, g++ ASan+UBSan, differential)."""
import os
import re
import shutil
import subprocess

from .. import codec, core, gen, schemagen

CXXFLAGS = ["-std=c++20", "-O1", "-g", "-fsanitize=address,undefined", "-fno-sanitize-recover=all", "-fno-sanitize=nonnull-attribute,pointer-overflow", "-I."]


def build_cpp(ctx, name, schema_files):
    """tlgen --language=cpp + g++ with sanitizers; returns (driver path | None, reason)"""
    tlgen = gen.tool(ctx, "tlgen")
    out = os.path.join(ctx.work, "cpp_" + name)
    shutil.rmtree(out, ignore_errors=True)
    r = ctx.run([tlgen, "--language=cpp", "--outdir=" + out, "--schemaTimestamp=1700000000", "--cpp-generate-meta", "--cpp-generate-factory"] + list(schema_files), cwd=ctx.work, timeout=300)
    if r.rc != 0:
        return None, "tlgen --language=cpp rejected the schema: " + r.tail(300)
    shutil.copy(os.path.join(core.VERIF, "harness", "cpp", "vh.cpp"), os.path.join(out, "vh.cpp"))
    os.makedirs(os.path.join(out, "obj"), exist_ok=True)
    srcs = []
    for root, _, files in os.walk(out):
        for f in files:
            if f.endswith(".cpp") and f != "main.cpp":
                srcs.append(os.path.relpath(os.path.join(root, f), out))
    procs = []
    objs = []
    for s in sorted(srcs):
        o = os.path.join("obj", re.sub(r"[/.]", "_", s) + ".o")
        objs.append(o)
        procs.append((s, subprocess.Popen(["g++"] + CXXFLAGS + ["-c", s, "-o", o], cwd=out, stdout=subprocess.PIPE, stderr=subprocess.STDOUT)))
    errs = []
    for s, p in procs:
        o, _ = p.communicate(timeout=1800)
        if p.returncode != 0:
            errs.append("%s: %s" % (s, o.decode("utf-8", "replace")[:600]))
    if errs:
        return None, "generated C++ does not compile: " + errs[0]
    r = ctx.run(["g++", "-fsanitize=address,undefined"] + objs + ["-o", "vh"], cwd=out, timeout=900)
    if r.rc != 0:
        return None, "link failed: " + r.tail(400)
    return os.path.join(out, "vh"), ""


def drive(ctx, driver, lines):
    """feeds the cases to the C++ driver; restarts after a crash behind the crashing case. Returns ({id: answer}, [(id, report)])"""
    answers, crashes = {}, []
    pos = 0
    env = dict(os.environ, ASAN_OPTIONS="abort_on_error=0:halt_on_error=1:detect_leaks=0:allocator_may_return_null=0:max_allocation_size_mb=1024", UBSAN_OPTIONS="print_stacktrace=1:halt_on_error=1")
    for _ in range(40):
        if pos >= len(lines):
            break
        inp = "".join(" ".join(l.split(" ")[:4]) + "\n" for l in lines[pos:])
        p = subprocess.run(["timeout", "-s", "KILL", "900", driver], input=inp.encode(), stdout=subprocess.PIPE, stderr=subprocess.PIPE, env=env)
        last_begin = None
        done = False
        for ol in p.stdout.decode("utf-8", "replace").splitlines():
            if ol.startswith("BEGIN "):
                last_begin = ol.split()[1]
            elif ol == "DONE":
                done = True
            else:
                parts = ol.split(" ", 1)
                if len(parts) == 2:
                    answers[parts[0]] = parts[1]
        if done:
            break
        # died: attribute to the last BEGIN without an answer
        if last_begin is None or last_begin in answers:
            crashes.append((None, "driver died outside a case (rc=%d): %s" % (p.returncode, p.stderr.decode("utf-8", "replace")[-1500:])))
            break
        crashes.append((last_begin, p.stderr.decode("utf-8", "replace")[-3000:]))
        ids = [l.split(" ", 1)[0] for l in lines]
        pos = ids.index(last_begin) + 1
    return answers, crashes


def filtered_cases(ctx):
    """cases.tl without the casesGo namespace (fields named read/write do not compile in C++: advisory N3)"""
    src = open(os.path.join(ctx.scratch, gen.TLS + "cases.tl")).read()
    out = []
    skip = False
    for line in src.split("\n"):
        if line.startswith("casesGo.") or "casesGo." in line.split("//")[0]:
            skip = not line.split("//")[0].rstrip().endswith(";")
            continue
        if skip:
            skip = not line.split("//")[0].rstrip().endswith(";")
            continue
        out.append(line)
    p = os.path.join(ctx.work, "cases_cpp.tl")
    open(p, "w").write("\n".join(out))
    return p


def run(ctx):
    thorough = ctx.tier == "thorough"
    ctx.make_scratch()
    sets = [("cases-without-casesGo", [filtered_cases(ctx)])]
    if thorough:
        sets.append(("goldmaster", [os.path.join(ctx.scratch, f) for f in gen.REPO_SETS["goldmaster"]]))
    for i in range(10 if thorough else 2):
        s = schemagen.generate(ctx.seed, "c31/%d" % i, field_names=schemagen.CPP_SAFE_FIELD_NAMES)
        p = os.path.join(ctx.work, "rnd_c31_%d.tl" % i)
        open(p, "w").write(s.text())
        sets.append(("random:c31/%d" % i, [p]))
    c = ctx.cov.setdefault("counters", {})
    tot = {"compared": 0, "agree_accept": 0, "agree_reject": 0, "throwing_api_agrees": 0}
    compiled = compare_sets(ctx, sets, thorough, c, tot)
    finish_report(ctx, c, tot, compiled)


def compare_sets(ctx, sets, thorough, c, tot):
    compiled = 0
    for name, files in sets:
        c["schemas"] = c.get("schemas", 0) + 1
        pk = codec.build_pkg(ctx, re.sub(r"\W", "_", name), files, "tl2all", must=False)
        if pk is None:
            c["schemas_rejected_by_go_generator"] = c.get("schemas_rejected_by_go_generator", 0) + 1
            continue
        pk.schema = name
        driver, why = build_cpp(ctx, re.sub(r"\W", "_", name), files)
        if driver is None:
            ctx.note("advisory: C++ back end cannot build %s (%s): schema not compared" % (name, why[:300]))
            c["schemas_not_built_in_cpp"] = c.get("schemas_not_built_in_cpp", 0) + 1
            continue
        compiled += 1
        cases_file = os.path.join(ctx.work, "c31_%s.cases" % re.sub(r"\W", "_", name))
        t, _ = codec.run_mode(ctx, pk, "c31", env={"VERIF_VALUES": 40 if thorough else 14, "VERIF_MUTATIONS": 6 if thorough else 4, "VERIF_CASES_OUT": cases_file})
        lines = [l for l in open(cases_file).read().split("\n") if l]
        # a count that Go's length sanity refuses would only make the C++ reader (which has no such check) allocate: not comparable
        nl = [l for l in lines if not (l.split(" ")[4] == "R" and l.split(" ")[6].startswith("invalid-length"))]
        c["cases_not_comparable_(go_length_sanity)"] = c.get("cases_not_comparable_(go_length_sanity)", 0) + len(lines) - len(nl)
        lines = nl
        answers, crashes = drive(ctx, driver, lines)
        byid = {l.split(" ", 1)[0]: l for l in lines}
        for cid, rep in crashes:
            l = byid.get(cid, "")
            parts = l.split(" ")
            kind = "sanitizer-report" if ("ERROR: AddressSanitizer" in rep or "runtime error:" in rep) else "driver-died"
            m = re.search(r"(AddressSanitizer: [\w-]+|runtime error: [^\n]{0,80})", rep)
            ctx.violation({"oracle": "cpp", "class": kind + ":" + (re.sub(r"0x[0-9a-f]+|\d+", "N", m.group(1)) if m else "unknown"), "item": parts[1] if len(parts) > 1 else "", "schema": name},
                          "C++ driver (ASan+UBSan build) died on input %s of %s:\n%s" % (parts[3][:200] if len(parts) > 3 else "?", parts[1] if len(parts) > 1 else "?", rep[-1800:]),
                          {"case.txt": l, "report.txt": rep})
        for l in lines:
            cid, item, boxed, hx, verdict, rest, rw = l.split(" ")
            a = answers.get(cid)
            if a is None:
                c["cases_without_cpp_answer"] = c.get("cases_without_cpp_answer", 0) + 1
                continue
            if a.startswith("NOITEM"):
                c["items_not_in_cpp_registry"] = c.get("items_not_in_cpp_registry", 0) + 1
                continue
            tot["compared"] += 1
            a, _, reu = a.partition(" U:")
            main, _, thr = a.partition(" T:")
            sig = {"oracle": "cpp", "item": item, "schema": name}
            files_r = {"input.txt": l, "cpp_answer.txt": a}
            if verdict == "A":
                if not main.startswith("OK "):
                    ctx.violation(dict(sig, **{"class": "go-accepts-cpp-rejects"}), "Go reads %s bytes of %s (boxed=%s) but the C++ code answers %s; input %s" % ("all" if rest == "0" else "a prefix of the", item, boxed, main[:60], hx[:300]), files_r)
                    continue
                got = main[3:] or "-"
                if got != rw and not (got == "" and rw == "-"):
                    ctx.violation(dict(sig, **{"class": "rewrite-differs"}), "Go and C++ both read the bytes of %s (boxed=%s) but write back different bytes: Go %s, C++ %s; input %s" % (item, boxed, rw[:200], got[:200], hx[:300]), files_r)
                    continue
                tot["agree_accept"] += 1
                ctx.distinct("%s/%s/accept" % (name, item))
            else:
                if main.startswith("OK"):
                    ctx.violation(dict(sig, **{"class": "go-rejects-cpp-accepts:" + re.sub(r"-(x|[A-Z]\w*)$", "", rw)[:60]}), "Go rejects a byte string of %s (boxed=%s) that the C++ code reads and rewrites as %s; input %s" % (item, boxed, main[3:200], hx[:300]), files_r)
                    continue
                tot["agree_reject"] += 1
                ctx.distinct("%s/%s/reject" % (name, item))
            # an object that has read earlier inputs of the item answers like a fresh one
            if reu:
                if reu.startswith("OK") != main.startswith("OK ") or (reu.startswith("OK") and reu[3:] != main[3:]):
                    ctx.violation(dict(sig, **{"class": "cpp-reused-object-differs"}), "a C++ object of %s that has already read earlier inputs answers %s, a fresh one %s; input %s" % (item, reu[:100], main[:100], hx[:300]), files_r)
                else:
                    tot["reused_object_agrees"] = tot.get("reused_object_agrees", 0) + 1
            # both C++ stream APIs agree with each other
            t_ok = thr.startswith("OK")
            if t_ok != main.startswith("OK ") or (t_ok and thr[3:] != main[3:]):
                ctx.violation(dict(sig, **{"class": "cpp-stream-apis-disagree"}), "the bool-returning and the throwing C++ stream APIs disagree on %s: %s vs %s; input %s" % (item, main[:100], thr[:100], hx[:300]), files_r)
            else:
                tot["throwing_api_agrees"] += 1
        if len(ctx.cov["samples"]) < 3 and lines:
            ctx.sample({"schema": name, "case": lines[0][:300], "cpp_answer": answers.get(lines[0].split(" ", 1)[0], "")[:300]})
    return compiled


def finish_report(ctx, c, tot, compiled):
    c.update({"cpp_" + k: v for k, v in tot.items()})
    c["schemas_compiled_with_asan_ubsan"] = compiled
    ctx.count(tot["compared"])
    ctx.cov["rule"] = ("per schema (cases.tl without the casesGo namespace, thorough: goldmaster, random SchemaGen schemas): Go package from the current tl2gen (default options) "
                       "and C++ from the current tlgen --language=cpp compiled with g++ -fsanitize=address,undefined -fno-sanitize-recover=all "
                       "(minus nonnull-attribute, pointer-overflow) and a driver over tlgen::meta. Cases: TL1 boxed and bare bytes of FillRandom / hostile read-back values and bounded "
                       "mutants; byte strings that Go refuses through its length-sanity heuristic are not given to the C++ code (it has no such check and would only allocate). Go accepts => C++ answers OK with the bytes Go rewrites; Go rejects => C++ "
                       "rejects; the throwing stream API answers like the bool one; an object reused across the inputs of an item answers like a fresh one; any sanitizer report or death of the driver is a violation attributed to the input "
                       "announced before it. Schemas the C++ back end cannot build are advisory notes.")
    ctx.require("schemas compiled in C++", compiled, 1)
    ctx.require("cases compared", tot["compared"], 3000)
    ctx.require("agreeing accepts", tot["agree_accept"], 1000)
    ctx.require("agreeing rejects", tot["agree_reject"], 300)
