"""C33 TL primitive codecs are exact (engine F, in-package monitor in pkg/basictl)."""
from .. import inpkg


def run(ctx):
    thorough = ctx.tier == "thorough"
    ctx.cov["rule"] = ("TL2 sizes for every length 0..70000; strings for every length 0..3000 and 65500..66100 and every 11th length in between (thorough: every length 0..200000 plus the 2^24 boundary with a 16 MiB buffer) and the boundaries 253..256, 2^16+-1, 65789+-1, "
                       "254+65535..254+65537: TL1 string writers (StringWrite, StringWriteBytes, StringWriteLen+Padding) and TL2 size/string writers "
                       "(TL2WriteSize, TL2PutSize, TL2CalculateSize, StringWriteTL2[Bytes]) compared byte for byte with an independent layout model; readers "
                       "must return the content and exactly the appended suffix; every truncation => io.ErrUnexpectedEOF; every non-zero padding byte and "
                       "both non-minimal TL1 length forms rejected; TL2 huge form accepted for every value; bit vectors 0..130 bits x 4 patterns + 300 random "
                       "long ones against a bit-by-bit model, dirty destinations. distinct_nontrivial = distinct lengths. The small range is enumerated completely.")
    env = {"VERIF_MAXLEN": 200000 if thorough else 70000, "VERIF_BIG": 1 if thorough else 0, "VERIF_STRIDE": 1 if thorough else 11}
    r, ev = inpkg.run_inpkg(ctx, "inpkg/basictl", "pkg/basictl", "^TestVerifC33$", env=env, timeout=2400)
    sm = inpkg.absorb(ctx, r, ev, "primitive codecs")
    t = inpkg.merge_counters(ctx, sm)
    ctx.cov["exhaustive"] = True
    n = t.get("tl1_string_written", 0) + t.get("tl2_sizes", 0) + t.get("tl2_strings", 0) + t.get("bit_vectors", 0) + t.get("tl1_truncations", 0) + t.get("tl1_bad_padding", 0) + t.get("tl1_nonminimal", 0)
    ctx.count(n)
    ctx.require("TL1 strings read back", t.get("tl1_string_read", 0), env["VERIF_MAXLEN"] // env["VERIF_STRIDE"])
    ctx.require("TL2 sizes", t.get("tl2_sizes", 0), env["VERIF_MAXLEN"])
    ctx.require("truncations", t.get("tl1_truncations", 0), 50000)
    ctx.require("bad paddings", t.get("tl1_bad_padding", 0), 1000)
    ctx.require("non-minimal forms", t.get("tl1_nonminimal", 0), 1000)
    ctx.require("bit vectors", t.get("bit_vectors", 0), 1500)
