"""C26 TLO output describes the schema faithfully (engine C + generated tls decoder)."""
from .. import schemaout


def run(ctx):
    thorough = ctx.tier == "thorough"
    t, n = schemaout.run(ctx, False, True, 120 if thorough else 12, "c26")
    ctx.cov["rule"] = ("tl2gen --language=tlo --schemaTimestamp=T (T in {1, 2^31-1, 2^32-1, fixed, random}) on every repository schema set and N random SchemaGen "
                       "schemas; the bytes are decoded with the generated tls package (must consume everything and re-encode identically); expected description "
                       "from the parsed input: every constructor and function exactly once in the right section with (tag, name); every type with arity, "
                       "params_type bit mask, constructors_num and name == XOR of its constructor tags; constructors refer to their type's name; version == date == T. "
                       "distinct_nontrivial = distinct (schema, type or combinator).")
    ctx.require("TLO files", t.get("tlo_files", 0), 10)
    ctx.require("TLO types", t.get("tlo_types", 0), 200)
    ctx.require("TLO combinators", t.get("tlo_combinators", 0), 500)
