"""C29 linter accepts documented safe schema evolutions (engine E)."""
import copy
import os

from .. import core, gen, linter, schemagen
from .c25 import LEGACY

LEGACY_NEW_TYPE = "legacy.extra#0d0e0f77 fields_mask:# a:fields_mask.0?int = legacy.Extra;\n"
LEGACY_NEW_FN = "@read legacy.getExtra#0d0e0f78 fields_mask:# id:int = legacy.Extra;\n"


def cli_phase(ctx, pairs, verdicts, meta):
    """the linter as a user runs it: tlgen --schema-to-compare=<old> <new>"""
    tlgen = gen.tool(ctx, "tlgen")
    d = os.path.join(ctx.work, "cli")
    os.makedirs(d, exist_ok=True)
    leg = schemagen.PRELUDE + LEGACY
    types, fns = leg.split("---functions---")
    cases = [("legacy-identity", leg, leg, ["identity"]),
             ("legacy-new-type-and-function", leg, types + LEGACY_NEW_TYPE + "---functions---" + fns + LEGACY_NEW_FN, ["add_type", "add_function"]),
             ("legacy-new-type", leg, types + LEGACY_NEW_TYPE + "---functions---" + fns, ["add_type"])]
    picked = {}
    for i, ((o, n), (v, _), kinds) in enumerate(zip(pairs, verdicts, meta)):
        k = "+".join(sorted(set(kinds)))
        if v == "ACCEPT" and k not in picked and len(picked) < (40 if ctx.tier == "thorough" else 14):
            picked[k] = i
            cases.append(("pair%d" % i, o, n, kinds))
    acc = 0
    for name, old, new, kinds in cases:
        fo, fn = os.path.join(d, name + ".old.tl"), os.path.join(d, name + ".new.tl")
        open(fo, "w").write(old)
        open(fn, "w").write(new)
        r = ctx.run([tlgen, "--schema-to-compare=" + fo, fn], cwd=d, timeout=120)
        ctx.count()
        if r.rc == 0 and "RESULT: New version is backward compatible" in r.text():
            acc += 1
            ctx.distinct("cli/" + name.rstrip("0123456789") + "/" + "+".join(sorted(set(kinds))))
            continue
        ctx.violation({"oracle": "linter-cli-accepts-safe", "class": "+".join(sorted(set(kinds))) or "identity", "schema": name.rstrip("0123456789")},
                      "tlgen --schema-to-compare rejects a documented safe evolution %s (%s) that CheckBackwardCompatibility accepts or that only adds combinators: %s"
                      % (kinds, name, r.tail(300).replace("\n", " | ")), {"old.tl": old, "new.tl": new})
    ctx.cov.setdefault("counters", {})["cli_pairs"] = len(cases)
    ctx.cov["counters"]["cli_accepted"] = acc


def run(ctx):
    thorough = ctx.tier == "thorough"
    ctx.make_scratch()
    n = 3000 if thorough else 300
    r = core.stream(ctx.seed, "c29")
    pairs, meta = [], []
    for i in range(n):
        s = linter.small_schema(ctx.seed, "c29/%d" % (i // 6))
        old = s.text()
        s2 = copy.deepcopy(s)
        kinds = []
        if i % 6 != 0:
            for _ in range(1 + r.below(5)):
                res = r.pick(linter.SAFE)(s2, r)
                if res:
                    kinds.append(res[0])
        else:
            kinds = ["identity"]
        pairs.append((old, s2.text()))
        meta.append(kinds)
    verdicts = linter.run_linter(ctx, pairs)
    acc = 0
    for (old, new), kinds, (v, msg) in zip(pairs, meta, verdicts):
        ctx.count()
        for k in kinds:
            c = ctx.cov.setdefault("counters", {})
            c["edit_" + k] = c.get("edit_" + k, 0) + 1
        ctx.distinct("+".join(sorted(set(kinds))) + "/" + str(hash(old) % 50))
        if v == "ACCEPT":
            acc += 1
            continue
        if v.startswith("PARSE"):
            ctx.inconc("generated schema does not parse: " + msg[:100])
            continue
        ctx.violation({"oracle": "linter-accepts-safe", "class": "+".join(sorted(set(kinds))) or "identity", "verdict": v},
                      "linter verdict %s for a documented safe evolution %s: %s" % (v, kinds, msg), {"old.tl": old, "new.tl": new})
    cli_phase(ctx, pairs, verdicts, meta)
    ctx.sample({"edits": meta[1], "new_tail": pairs[1][1][-300:]})
    ctx.cov["rule"] = ("pairs (old SchemaGen schema, new = old after 1-5 documented safe edits applied on the AST, or identity): append a field guarded by an unused bit of an "
                       "existing field mask (structs, union constructors, functions), append a constructor to a union/enum or to a struct that is referenced only boxed, add a "
                       "new type, add a new function whose first argument is '#'. The real CheckBackwardCompatibility(new, old) must return nil (a panic is a failure). "
                       "distinct_nontrivial = distinct (edit kinds, schema bucket). The command line path (tlgen --schema-to-compare=old new) is run on one accepted pair per edit-kind "
                       "combination and on a schema with the legacy combinators the tool strips from its input (identity, plus new type / new function): exit status 0 and the line RESULT: New version is backward compatible expected (style warnings of the new schema are not verdicts; -Werror is not used because it turns them into failures).")
    ctx.require("pairs", len(pairs), n)
    ctx.require("accepted", acc, n * 8 // 10)
