"""C21 TL1 schema printer round-trips through the parser."""
from .. import inpkg


def run(ctx):
    n = 4000 if ctx.tier == "quick" else 150000
    ctx.cov["rule"] = ("schemas = every repository .tl file, hand-written corner cases, N files from an own syntactic TL1 generator in random "
                       "layouts, N parseable mutants of repository schema windows. Oracle: parse -> TL.String() -> parse; combinator lists compared "
                       "structurally by a reflection walk over the AST that ignores only positions, comments and resolution-time fields and compares "
                       "arithmetic by value (names, ID and IDExplicit, modifiers, template arguments, fields with masks/excl/repetition/scale, type refs "
                       "with bareness and args, result/type declaration, builtin flag, function-ness). distinct_nontrivial = distinct normalised combinators.")
    r, ev = inpkg.run_inpkg(ctx, "inpkg/tlast", "internal/tlast", "^TestVerifC21$", env={"VERIF_N": n}, timeout=1500)
    sm = inpkg.absorb(ctx, r, ev, "TL1 printer")
    t = inpkg.merge_counters(ctx, sm)
    ctx.count(t.get("combinators", 0))
    ctx.require("combinators compared", t.get("combinators", 0), 3000)
    ctx.require("generated schemas parsed", t.get("schemas_generated", 0), n // 2)
    ctx.require("repository schemas parsed", t.get("schemas_repo", 0), 5)
