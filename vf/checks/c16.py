"""C16 output directory management is exact and safe (engine C: file-tree snapshots + strace)."""
import os
import re
import shutil

from .. import core, gen

WRITE_CALLS = "openat,open,creat,unlink,unlinkat,rename,renameat,renameat2,mkdir,mkdirat,rmdir,truncate,link,linkat,symlink,symlinkat"


def snap(root):
    out = {}
    for dp, dn, fn in os.walk(root):
        for f in fn:
            p = os.path.join(dp, f)
            st = os.lstat(p)
            out[os.path.relpath(p, root)] = (core.sha(p), st.st_mtime_ns, st.st_ino)
    return out


def parse_strace(path, cwd):
    """returns list of (syscall, abs path) for calls that modify the file system (successful or not)"""
    mods = []
    for line in open(path, errors="replace"):
        m = re.match(r"^\d+\s+(\w+)\((.*)\)\s+=\s+(-?\d+)", line)
        if not m:
            continue
        call, args, ret = m.group(1), m.group(2), int(m.group(3))
        paths = re.findall(r'"((?:[^"\\]|\\.)*)"', args)
        if not paths:
            continue
        if call in ("open", "openat"):
            if not re.search(r"O_WRONLY|O_RDWR|O_CREAT|O_TRUNC|O_APPEND", args):
                continue
            if ret < 0 and "O_CREAT" not in args:
                continue
        for p in paths[:2] if call.startswith("rename") or call.startswith("link") else paths[:1]:
            if not os.path.isabs(p):
                p = os.path.normpath(os.path.join(cwd, p))
            mods.append((call, os.path.normpath(p), ret))
    return mods


class Runner:
    def __init__(self, ctx):
        self.ctx = ctx
        self.tool = gen.tool(ctx, "tl2gen")
        self.n = 0

    def gen(self, outdir, schemas, extra=(), strace=True, pkg_rel=None):
        self.n += 1
        ctx = self.ctx
        pkg_rel = pkg_rel or os.path.relpath(outdir, ctx.scratch)
        cmd = [self.tool, "--language=go", "--tl2WhiteList=*", "--generateRandomCode", "--outdir=" + outdir, "--pkgPath=%s/%s/tl" % (core.MODULE, pkg_rel),
               "--basicPkgPath=%s/pkg/basictl" % core.MODULE, "--basicRPCPath=%s/pkg/rpc" % core.MODULE, "--schemaTimestamp=1700000000",
               "--copyrightPath=" + os.path.join(ctx.scratch, "COPYRIGHT")] + list(extra) + [os.path.join(ctx.scratch, s) for s in schemas]
        log = os.path.join(ctx.work, "strace-%d.txt" % self.n)
        if strace:
            cmd = ["strace", "-f", "-qq", "-e", "trace=" + WRITE_CALLS, "-o", log] + cmd
        r = ctx.run(cmd, cwd=ctx.scratch, timeout=600)
        mods = parse_strace(log, ctx.scratch) if strace and os.path.exists(log) else []
        return r, mods


def tlgen_histories(ctx, base, viol):
    """the old generator's output directory handling (internal/tlcodegen/tlgen.go WriteToDir), C++ output of cases.tl"""
    tlgen = gen.tool(ctx, "tlgen")
    schema = os.path.join(ctx.scratch, gen.TLS + "cases.tl")
    steps = 0

    def run_gen(D, n):
        log = os.path.join(ctx.work, "strace-tlgen-%d.txt" % n)
        cmd = ["strace", "-f", "-qq", "-e", "trace=" + WRITE_CALLS, "-o", log, tlgen, "--language=cpp", "--outdir=" + D, "--schemaTimestamp=1700000000", "--cpp-generate-meta", "--cpp-generate-factory", schema]
        r = ctx.run(cmd, cwd=ctx.scratch, timeout=600)
        return r, (parse_strace(log, ctx.scratch) if os.path.exists(log) else [])

    n = 0
    for hist in (["gen", "gen"], ["gen", "foreign", "gen"], ["subdirsonly"], ["gen", "nomarker"], ["topfile"], ["gen", "subdirsonly-extra", "gen"]):
        wdir = os.path.join(base, "wt")
        shutil.rmtree(wdir, ignore_errors=True)
        os.makedirs(wdir)
        D = os.path.join(wdir, "out")
        done = []
        clean = None
        for step in hist:
            done.append("tlgen:" + step)
            steps += 1
            n += 1
            ctx.distinct("tlgen/" + "-".join(done))
            if step == "gen":
                before = snap(D) if os.path.isdir(D) else {}
                r, mods = run_gen(D, n)
                ctx.count()
                if r.rc != 0:
                    viol("generation-failed", "tlgen --language=cpp failed (rc=%d): %s" % (r.rc, r.tail(300)), done)
                    break
                after = snap(D)
                if clean is None:
                    clean = {k: v[0] for k, v in after.items()} if not before else None
                got = {k: v[0] for k, v in after.items()}
                ref = TLGEN_REF.setdefault("ref", got if not before else None)
                if ref is not None and got != ref:
                    viol("file-set", "tlgen: after regeneration the directory differs from a clean generation: extra %s missing %s" % (sorted(set(got) - set(ref))[:4], sorted(set(ref) - set(got))[:4]), done)
                for k in after:
                    if k in before and before[k][0] == after[k][0] and (before[k][1] != after[k][1] or before[k][2] != after[k][2]):
                        viol("unchanged-file-rewritten", "tlgen: file %s has the same content but a new mtime/inode" % k, done)
                        break
                Dn = os.path.normpath(D)
                for call, p, ret in mods:
                    if not (p == Dn or p.startswith(Dn + os.sep) or p.startswith("/dev/") or p.startswith("/proc/")):
                        viol("write-outside-outdir", "tlgen: %s(%s) = %d outside the output directory" % (call, p, ret), done)
                        break
            elif step in ("foreign", "subdirsonly-extra"):
                os.makedirs(os.path.join(D, "zz_foreign", "deep"), exist_ok=True)
                open(os.path.join(D, "zz_foreign", "deep", "x.h"), "w").write("// not generated\n")
                if step == "foreign":
                    open(os.path.join(D, "foreign.txt"), "w").write("not generated\n")
            else:
                if step == "subdirsonly":
                    os.makedirs(os.path.join(D, "proj1", "src"))
                    open(os.path.join(D, "proj1", "src", "main.cpp"), "w").write("int main(){}\n")
                    os.makedirs(os.path.join(D, "proj2"))
                    open(os.path.join(D, "proj2", "notes.txt"), "w").write("notes\n")
                elif step == "topfile":
                    os.makedirs(D)
                    open(os.path.join(D, "README"), "w").write("mine\n")
                elif step == "nomarker":
                    os.remove(os.path.join(D, "tlgen2_version.txt"))
                before = snap(D)
                r, mods = run_gen(D, n)
                ctx.count()
                after = snap(D)
                if r.rc == 0:
                    viol("refusal", "tlgen: non-empty output directory without the marker file (%s) was accepted" % step, done)
                elif before != after:
                    viol("refused-but-modified", "tlgen: generation was refused (%s) but the directory changed" % step, done)
                break
    return steps


TLGEN_REF = {}


def run(ctx):
    thorough = ctx.tier == "thorough"
    ctx.make_scratch()
    R = Runner(ctx)
    A = gen.REPO_SETS["cases"]
    B = gen.REPO_SETS["goldmaster"]
    C = gen.REPO_SETS["schema"]
    base = os.path.join(ctx.scratch, "internal", "vgen")
    os.makedirs(base, exist_ok=True)
    allowed_runtime = [os.path.join(ctx.scratch, "pkg", "basictl", "basictl.go"), os.path.join(ctx.scratch, "pkg", "basictl", "basictl2.go")]
    steps = 0

    def viol(cls, desc, hist):
        ctx.violation({"oracle": "outdir", "class": cls}, desc + "\nhistory: " + " -> ".join(hist), {"history.txt": "\n".join(hist)})

    def check_writes(mods, D, hist, unchanged_rel=()):
        """every modifying call is under D or exactly the runtime files; unchanged files are never opened for writing"""
        Dn = os.path.normpath(D)
        for call, p, ret in mods:
            if p == Dn or p.startswith(Dn + os.sep):
                rel = os.path.relpath(p, Dn)
                if rel in unchanged_rel and call in ("open", "openat", "creat", "truncate", "unlink", "unlinkat", "rename", "renameat", "renameat2"):
                    viol("unchanged-file-rewritten", "%s(%s) on a file whose content did not change" % (call, rel), hist)
                continue
            if p in allowed_runtime:
                continue
            if p.startswith("/dev/") or p.startswith("/proc/"):
                continue
            viol("write-outside-outdir", "%s(%s) = %d outside the output directory and the runtime library location" % (call, p, ret), hist)

    def clean_reference(name, schemas, extra=()):
        d = os.path.join(base, "ref_" + name)
        if os.path.exists(d):
            shutil.rmtree(d)
        # same package path as the directory under test so that contents are comparable
        return d

    sets = {"A": A, "B": B}
    if thorough:
        sets["C"] = C
    # A2: set A with one hex digit of an explicit tag and one letter of a field name changed: most generated files keep their length, some change content
    moddir = os.path.join(ctx.work, "mod")
    os.makedirs(moddir, exist_ok=True)
    txt = open(os.path.join(ctx.scratch, A[0])).read()
    txt2 = txt.replace("cases.testVector#4975695c", "cases.testVector#4975695d", 1).replace("benchmarks.vruhash#d31bd0fd low:long high:long", "benchmarks.vruhash#d31bd0fe low:long hish:long", 1)
    if txt2 == txt:
        raise core.CheckBroken("cases.tl no longer has the combinators the same-length edit is made on")
    open(os.path.join(moddir, "cases.tl"), "w").write(txt2)
    sets["A2"] = [os.path.join(moddir, "cases.tl")]
    refs = {}
    for nm, sc in sets.items():
        d = os.path.join(base, "ref%s" % nm, "out")
        os.makedirs(os.path.dirname(d), exist_ok=True)
        r, _ = R.gen(d, sc, strace=False, pkg_rel="internal/vgen/w/out")
        ctx.need(r, "reference generation of set " + nm)
        refs[nm] = {k: v[0] for k, v in snap(d).items()}
    histories = [["A", "A", "B", "A"], ["B", "A", "foreign", "B"], ["A", "nomarker", "A"], ["A", "markerdir"], ["emptydirs", "A", "A"], ["file"], ["A", "nestedforeign", "A"],
                 ["A", "symlink", "A"], ["A", "A2", "A", "A2"]]
    if thorough:
        histories += [["A", "B", "C", "A", "C", "B"], ["C", "foreign", "nomarker", "C"], ["B", "B", "B"], ["A", "split", "A"], ["emptydirs", "B", "foreign", "A"]]
    for hi, hist in enumerate(histories):
        wdir = os.path.join(base, "w")
        if os.path.lexists(wdir):
            shutil.rmtree(wdir) if os.path.isdir(wdir) else os.remove(wdir)
        os.makedirs(wdir)
        D = os.path.join(wdir, "out")
        done = []
        cur = None
        for step in hist:
            done.append(step)
            steps += 1
            ctx.distinct("%d/%s" % (hi, "-".join(done)))
            if step in sets or step == "split":
                before = snap(D) if os.path.isdir(D) else {}
                extra = ("--split-internal",) if step == "split" else ()
                nm = "A" if step == "split" else step
                r, mods = R.gen(D, sets[nm], extra=extra)
                ctx.count()
                if r.rc != 0:
                    viol("generation-failed", "generation of set %s failed (rc=%d): %s" % (nm, r.rc, r.tail(400)), done)
                    break
                after = snap(D)
                if step != "split":
                    want = refs[nm]
                    got = {k: v[0] for k, v in after.items()}
                    if set(got) != set(want):
                        extra_f = sorted(set(got) - set(want))[:5]
                        missing = sorted(set(want) - set(got))[:5]
                        viol("file-set", "after generating %s the directory differs from a clean generation: stale/extra %s, missing %s" % (nm, extra_f, missing), done)
                    else:
                        bad = [k for k in want if want[k] != got[k]]
                        if bad:
                            viol("file-content", "after generating %s files differ from a clean generation: %s" % (nm, bad[:5]), done)
                unchanged = [k for k in after if k in before and before[k][0] == after[k][0]]
                for k in unchanged:
                    if before[k][1] != after[k][1] or before[k][2] != after[k][2]:
                        viol("unchanged-file-rewritten", "file %s has the same content but a new mtime/inode" % k, done)
                        break
                check_writes(mods, D, done, set(unchanged))
                ctx.cov.setdefault("counters", {})["unchanged_files_checked"] = ctx.cov.get("counters", {}).get("unchanged_files_checked", 0) + len(unchanged)
                ctx.cov["counters"]["fs_modifying_syscalls_seen"] = ctx.cov["counters"].get("fs_modifying_syscalls_seen", 0) + len(mods)
                cur = nm
            elif step == "symlink":
                # a symbolic link inside the output directory to a directory outside of it: whatever happens to the link, nothing behind it may be touched
                outside = os.path.join(wdir, "outside_dir")
                os.makedirs(os.path.join(outside, "sub"), exist_ok=True)
                open(os.path.join(outside, "precious.go"), "w").write("package precious\n")
                open(os.path.join(outside, "sub", "data.txt"), "w").write("data\n")
                os.symlink(outside, os.path.join(D, "zz_link"))
                os.symlink(os.path.join(outside, "precious.go"), os.path.join(D, "zz_filelink.go"))
                outside_before = snap(outside)
                done.append("A")
                steps += 1
                r, mods = R.gen(D, sets["A"])
                ctx.count()
                if snap(outside) != outside_before:
                    viol("outside-files-touched-through-symlink", "regeneration changed or removed files of a directory outside the output directory that a symbolic link inside it points to: before %s, after %s" % (
                        sorted(outside_before), sorted(snap(outside))), done)
                ctx.cov.setdefault("counters", {})["symlink_scenarios"] = ctx.cov.get("counters", {}).get("symlink_scenarios", 0) + 1
                break
            elif step in ("foreign", "nestedforeign"):
                os.makedirs(os.path.join(D, "zz_foreign", "deep"), exist_ok=True)
                open(os.path.join(D, "foreign.txt"), "w").write("not generated\n")
                open(os.path.join(D, "zz_foreign", "deep", "x.go"), "w").write("package x\n")
                if step == "nestedforeign":
                    open(os.path.join(D, "tl", "zz_stale.go") if os.path.isdir(os.path.join(D, "tl")) else os.path.join(D, "zz_stale.go"), "w").write("package tl\n")
            elif step in ("nomarker", "markerdir", "file", "emptydirs"):
                if step == "nomarker":
                    os.remove(os.path.join(D, "meta", "meta.go"))
                elif step == "markerdir":
                    os.remove(os.path.join(D, "meta", "meta.go"))
                    os.makedirs(os.path.join(D, "meta", "meta.go"))
                elif step == "file":
                    open(D, "w").write("i am a file\n")
                elif step == "emptydirs":
                    os.makedirs(os.path.join(D, "a", "b", "c"))
                    continue
                before = snap(D) if os.path.isdir(D) else {"<file>": core.sha(D)}
                r, mods = R.gen(D, A)
                ctx.count()
                after = snap(D) if os.path.isdir(D) else {"<file>": core.sha(D)}
                if r.rc == 0:
                    viol("refusal", "non-empty output directory without the marker file (%s) was accepted" % step, done)
                elif before != after:
                    viol("refused-but-modified", "generation was refused (%s) but the directory changed" % step, done)
                else:
                    Dn = os.path.normpath(D)
                    touched = [(c, p) for c, p, ret in mods if (p == Dn or p.startswith(Dn + os.sep)) and not (c == "mkdir" and p == Dn) and ret >= 0]
                    if touched:
                        viol("refused-but-written", "generation was refused (%s) but modifying syscalls succeeded under the directory: %s" % (step, touched[:3]), done)
                if "TL Generation Failed" not in r.text() and r.rc != 0 and len(r.text().strip()) == 0:
                    viol("refusal-silent", "refusal without any message", done)
                check_writes([m for m in mods if not (m[1] == os.path.normpath(D) or m[1].startswith(os.path.normpath(D) + os.sep))], D, done)
                if step in ("nomarker", "markerdir", "file"):
                    break
        ctx.sample({"history": hist})
    steps += tlgen_histories(ctx, base, viol)
    ctx.cov["rule"] = ("histories of generations into one output directory (sets A=cases, B=goldmaster, thorough: C=schema.tl and --split-internal): A->A->B->A, foreign and "
                       "stale files added while the marker exists, marker deleted, marker replaced by a directory, outdir is a file, empty sub-directories only. "
                       "Each step runs tl2gen under strace -f (open with write flags, creat, unlink, rename, mkdir, rmdir, truncate, link, symlink) with file-tree "
                       "snapshots (sha256, mtime, inode) before and after. Oracles: file set and contents == clean generation of the same set; files with unchanged "
                       "content keep mtime+inode and are never opened for writing; refusal => exit != 0, identical snapshot, no successful modifying syscall under the "
                       "directory; every modifying syscall targets the outdir or exactly pkg/basictl/basictl{,2}.go derived from --basicPkgPath. "
                       "A symbolic link inside the directory to an outside directory: nothing behind it changes. The old generator (tlgen --language=cpp, marker tlgen2_version.txt): "
                       "regeneration keeps unchanged files, removes foreign files when the marker exists, and refuses (unmodified tree) a directory without the marker that has a "
                       "top-level file, only nested files, or a deleted marker. distinct_nontrivial = distinct history prefixes.")
    ctx.require("steps", steps, 18)
    ctx.require("modifying syscalls observed", ctx.cov.get("counters", {}).get("fs_modifying_syscalls_seen", 0), 500)
    ctx.require("unchanged files checked", ctx.cov.get("counters", {}).get("unchanged_files_checked", 0), 200)
