#!/usr/bin/env python3
"""Re-run checks against a stored seeded change: fresh worktree of /repo, apply seeded/<name>/patch.diff, run checks with VERIF_REPO, remove.

usage: seedrun.py <seed-name> [--checks C01,C11] [--tier quick] [--seed N]
Updates seeded/<name>/meta.json "detection".
"""
import argparse
import json
import os
import re
import subprocess
import sys
import time

VERIF = "/verif"


def main():
    ap = argparse.ArgumentParser()
    ap.add_argument("name")
    ap.add_argument("--checks", default="")
    ap.add_argument("--tier", default="quick")
    ap.add_argument("--seed", default="1")
    a = ap.parse_args()
    sd = os.path.join(VERIF, "seeded", a.name)
    meta = json.load(open(os.path.join(sd, "meta.json")))
    checks = a.checks.split(",") if a.checks else [meta["property"]]
    wt = "/var/tmp/seedwt/%s-%d" % (a.name, os.getpid())
    os.makedirs(os.path.dirname(wt), exist_ok=True)
    subprocess.run(["git", "-C", "/repo", "worktree", "add", "--detach", wt, "HEAD"], check=True, stdout=subprocess.DEVNULL, stderr=subprocess.DEVNULL)
    try:
        p = subprocess.run(["git", "-C", wt, "apply", os.path.join(sd, "patch.diff")], stdout=subprocess.PIPE, stderr=subprocess.STDOUT)
        if p.returncode != 0:
            print("patch does not apply:", p.stdout.decode()[-400:])
            return 3
        det = meta.setdefault("detection", {})
        for c in checks:
            t0 = time.time()
            env = dict(os.environ, VERIF_REPO=wt, VERIF_SEED=a.seed, VERIF_EVIDENCE_DIR="/var/tmp/seedwt/evidence-%d" % os.getpid(), VERIF_REPLAY_DIR="/var/tmp/seedwt/replay-%d" % os.getpid())
            q = subprocess.run([os.path.join(VERIF, "bin/verif"), "check", c, "--tier", a.tier], env=env, cwd=VERIF, stdout=subprocess.PIPE, stderr=subprocess.STDOUT)
            out = q.stdout.decode("utf-8", "replace")
            viol = re.findall(r"^VIOLATION property=\S+.*\n(.*)", out, re.M)
            det["%s/%s" % (c, a.tier)] = {"rc": q.returncode, "violations": len(viol), "first": (viol[0][:400] if viol else ""), "wall_s": round(time.time() - t0), "verif_seed": a.seed}
            print("check %s %s: rc=%d violations=%d %s" % (c, a.tier, q.returncode, len(viol), (viol[0][:160] if viol else "")))
        json.dump(meta, open(os.path.join(sd, "meta.json"), "w"), indent=1)
    finally:
        subprocess.run(["git", "-C", "/repo", "worktree", "remove", "--force", wt], stdout=subprocess.DEVNULL, stderr=subprocess.DEVNULL)
        subprocess.run("rm -rf /var/tmp/seedwt/evidence-%d /var/tmp/seedwt/replay-%d" % (os.getpid(), os.getpid()), shell=True)
    return 0


if __name__ == "__main__":
    sys.exit(main())
