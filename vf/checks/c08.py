"""C08 generated readers are total and bounded (engine A)."""
from .. import codec

RULE = ("per item and variant: every reader (TL1 bare/boxed, TL2, JSON) on mutated encodings, hostile 32-bit counts (2^31, 2^32-1, len+1...), hostile TL2 sizes "
        "(0xfe/0xff forms, huge sizes, 200-deep size nesting), random byte strings, JSON nesting bombs / long literals / truncations; the six function-result "
        "transcoders on hostile input. Monitors: recover() around every call (panic = violation), journaled child with a watchdog and a memory ulimit "
        "(death = violation attributed to the item), runtime.MemStats TotalAlloc delta on every 7th read of inputs <= 1 KiB in sanity builds: "
        "delta <= 1 MiB + maxElemSize*len^2. distinct_nontrivial = distinct (item, reader, outcome).")


def run(ctx):
    codec.simple_check(ctx, "c08", RULE, [("types", "types", 150), ("reads", "reads", 100000), ("allocation samples", "alloc_samples", 5000),
                                          ("transcoder inputs", "transcoder_inputs", 1000)], 16, 120, count_keys=("reads", "transcoder_inputs"), mem_gb=4, random_quick=3, random_thorough=30, oom_is_violation=True)
