"""C28 backward-compatibility linter is sound for TL1 wire compatibility (engine E + RefCodec)."""
import copy

from .. import core, linter, schemagen


def run(ctx):
    thorough = ctx.tier == "thorough"
    ctx.make_scratch()
    n = 4000 if thorough else 500
    r = core.stream(ctx.seed, "c28")
    pairs, meta, schemas = [], [], []
    edits_all = linter.SAFE + linter.UNSAFE + [linter.e_neutral, linter.e_neutral]
    for i in range(n):
        s = linter.small_schema(ctx.seed, "c28/%d" % (i // 8))
        s2 = copy.deepcopy(s)
        kinds = []
        for _ in range(1 + r.below(3)):
            fn = r.pick(edits_all)
            if fn in linter.UNSAFE and any(k.startswith("!") for k in kinds):
                # at most one unsafe edit per pair: two of them can add up to a safe change (a field appended under a used bit whose bit is then
                # moved to a free one) or hide which one broke the wire format; safe and neutral edits may still surround it
                continue
            res = fn(s2, r)
            if res:
                kinds.append(("!" if fn in linter.UNSAFE else "") + "%s@%s" % res)
        if not kinds or (any("add-mask-to-field" in k for k in kinds) and any("remove-mask-from-field" in k for k in kinds)) or \
                (any(k.startswith("append-") or k.startswith("!append-") for k in kinds) and any("remove-field" in k or "remove-constructor" in k for k in kinds)):
            continue  # two edits that may undo each other (mask added then removed, a field or constructor appended then removed) leave no classifiable edit
        pairs.append((s.text(), s2.text()))
        meta.append(kinds)
        schemas.append((s, s2))
    for i in range(60 if thorough else 16):
        fs, fs2, res = linter.recursion_family(r)
        pairs.append((fs.text(), fs2.text()))
        meta.append(["!%s@%s" % res])
        schemas.append((fs, fs2))
    verdicts = linter.run_linter(ctx, pairs)
    accepted = 0
    values = 0
    for (old_t, new_t), kinds, (s, s2), (v, msg) in zip(pairs, meta, schemas, verdicts):
        ctx.count()
        c = ctx.cov.setdefault("counters", {})
        c["verdict_" + v] = c.get("verdict_" + v, 0) + 1
        if v != "ACCEPT":
            continue
        accepted += 1
        rc_old = schemagen.RefCodec(s, core.stream(ctx.seed, "c28v/%d" % accepted))
        rc_old.strict_masks = True
        rc_new = schemagen.RefCodec(s2, core.stream(ctx.seed, "c28w/%d" % accepted))
        new_by_name = {}
        for d in s2.decls:
            for cst in d.constructors:
                new_by_name[cst.lname] = d
        new_fn = {f.name: f for f in s2.functions}
        bad = None
        for d in s.decls:
            if d.params:
                continue
            d2 = new_by_name.get(d.constructors[0].lname)
            if d2 is None or d2.params:
                continue
            for _ in range(12 if not thorough else 30):
                val = rc_old.decl_value(d, {}, 0)
                for boxed in ([True, False] if d.kind in ("struct", "typedef") and d2.kind in ("struct", "typedef") else [True]):
                    if d.kind in ("struct", "typedef") and d2.kind in ("union", "enum") and not boxed:
                        continue
                    data = rc_old.encode_item(d, val, boxed or d.kind in ("union", "enum"))
                    values += 1
                    try:
                        v2, used = rc_new.decode_item(d2, data, boxed or d.kind in ("union", "enum"))
                        again = rc_new.encode_item(d2, v2, boxed or d.kind in ("union", "enum"))
                    except schemagen.RefError as e:
                        bad = ("new schema cannot decode an old encoding of %s: %s" % (d.lname, e), data)
                        break
                    except (RecursionError, MemoryError, KeyError, IndexError):
                        continue
                    if used != len(data) or again != data:
                        bad = ("old encoding of %s is decoded by the new schema to a value that re-encodes differently (consumed %d of %d)" % (d.lname, used, len(data)), data)
                        break
                if bad:
                    break
            if bad:
                break
        if not bad:
            for f in s.functions:
                f2 = new_fn.get(f.name)
                if f2 is None:
                    continue
                for _ in range(8):
                    vals = rc_old.fields_value(f.fields, {}, 0)
                    data = rc_old.encode_function(f, vals)
                    values += 1
                    try:
                        import struct
                        if struct.unpack_from("<I", data, 0)[0] != f2.tag:
                            bad = ("function %s changed its tag" % f.name, data)
                            break
                        v2, used = rc_new.dec_fields(f2.fields, data, 4, {}, missing_nat_from=len(f.fields))
                        out = [data[:4]]
                        rc_new.enc_fields(v2, out)
                        again = b"".join(out)
                    except schemagen.RefError as e:
                        bad = ("new schema cannot decode an old request of %s: %s" % (f.name, e), data)
                        break
                    except (RecursionError, MemoryError, KeyError, IndexError):
                        continue
                    if used != len(data) or again != data:
                        bad = ("old request of %s is decoded by the new schema to a value that re-encodes differently (consumed %d of %d)" % (f.name, used, len(data)), data)
                        break
                if bad:
                    break
        ctx.distinct("+".join(sorted(set(k.split("@")[0] for k in kinds))))
        if bad:
            cls = "+".join(sorted(set(k[1:] for k in kinds if k.startswith("!")))) or "safe-edits-only:" + "+".join(sorted(set(kinds)))
            ctx.violation({"oracle": "linter-soundness", "class": cls}, "linter accepted %s but wire compatibility is broken: %s; bytes %s" % (kinds, bad[0], bad[1].hex()[:300]),
                          {"old.tl": old_t, "new.tl": new_t})
    ctx.sample({"edits": meta[0], "verdict": verdicts[0][0]})
    ctx.cov.setdefault("counters", {}).update({"accepted_pairs_evaluated": accepted, "old_values_encoded": values})
    ctx.cov["rule"] = ("pairs (old SchemaGen schema, new = old after 1-3 edits drawn from safe, unsafe and neutral edits at every position class); only pairs the real "
                       "CheckBackwardCompatibility(new, old) accepts are evaluated. For every old parameter-free constructor and function and 8-12 old values in the stated domain "
                       "(field masks set only bits the old schema gives meaning to, unused '#' are 0, sizes small): RefCodec under the new AST must decode the old bytes "
                       "completely and re-encode them unchanged (appended function arguments: the appended mask reads as zero). distinct_nontrivial = distinct accepted edit-kind sets.")
    ctx.require("pairs", len(pairs), n * 7 // 10)
    ctx.require("accepted pairs evaluated", accepted, n // 6)
    ctx.require("old values", values, n * 5)
