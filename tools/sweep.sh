#!/bin/bash
# runs every registered check's quick tier at several seeds; prints one line per run (used to make sure checks stay silent)
cd "$(dirname "$0")/.."
seeds="${SWEEP_SEEDS:-2 3 7 42}"
checks="${SWEEP_CHECKS:-$(python3 -c "import json;print(' '.join(c['property_id'] for c in json.load(open('MANIFEST.json'))['checks']))")}"
export VERIF_EVIDENCE_DIR=/var/tmp/verif-sweep-evidence VERIF_REPLAY_DIR=/var/tmp/verif-sweep-replay
for s in $seeds; do
  for c in $checks; do
    out=$(VERIF_SEED=$s bin/verif check $c --tier ${SWEEP_TIER:-quick} 2>&1)
    rc=$?
    echo "seed=$s $c rc=$rc $(echo "$out" | grep -a "^$c " | tail -1)"
    if [ $rc -ne 0 ]; then echo "$out" | grep -a -A3 "^VIOLATION\|^INCONCLUSIVE" | head -40; fi
  done
done
