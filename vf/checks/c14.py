"""C14 every accepted schema yields Go code that builds; generator never panics (engine C)."""
import os
import re
import shutil

from .. import core, gen, schemagen

TOK = re.compile(r"[A-Za-z_][\w.]*|#[0-9a-f]{8}|\d+|---\w+---|//[^\n]*|\s+|.", re.S)
ALPHABET = ["int", "long", "string", "Bool", "true", "True", "#", "%", "!", "(", ")", "[", "]", "{", "}", "<", ">", ",", ";", "=", ":", "?", ".", "*", "+", "0", "1", "31", "32", "4294967295",
            "vector", "Vector", "Maybe", "tuple", "Tuple", "dictionary", "n", "x", "X", "t:Type", "n:#", "@read", "@any", "---functions---", "---types---", "#00000000", "#12345678", "=>", "_", "|"]

COLLISION_SCHEMAS = [
    # names that differ only by case / namespace, Go keywords, generated method names
    "vz.item a:int = vz.Item;\nvz.Item2 a:int = vz.ITem2;\nvy.item a:int = vy.Item;\n",
    "vz.type func:int go:int chan:int select:int range:int map:int interface:int = vz.Type;\n",
    "vz.names read:int write:int tl_name:int tl_tag:int fill_random:int = vz.Names;\n",
    "vz.a b:int = vz.A;\nvz.aB c:int = vz.AB;\nvz.a_b c:int = vz.A_b;\n",
    "vz.u1 x:int = vz.U;\nvz.u2 X:int = vz.U;\nvz.useU u:vz.U v:(vector vz.U) = vz.UseU;\n",
    "vz.x1 vz:int item:int Item:long = vz.X1;\n",
]

KNOWN_BAD = [
    ("F17-reset", "vz.f17 reset:int string:int = vz.F17;\n", ["tl2all"]),
    ("F18-typedef-bool", "vz.val0 Bool = vz.Val0;\nvz.useVal0 a:vz.val0 = vz.UseVal0;\n", ["tl2all"]),
    ("F27-unused-type-parameter", "vz.s27 x:int = vz.S27;\nvz.pair27 {X:Type} {Y:Type} b:Y = vz.Pair27 X Y;\nvz.use27 p:(vz.Pair27 (Maybe vz.s27) vz.s27) = vz.Use27;\n", ["tl2all"]),
    ("F19-empty-struct-under-mask", "vz.obj8 = vz.Obj8;\nvz.useObj8 m:# a:m.1?vz.obj8 = vz.UseObj8;\n", ["tl2all"]),
]
# crafted shapes that SchemaGen does not produce (type-parameter templates used bare / boxed, results across namespaces for the RPC client code);
# whether the generator accepts each one is its business: accepted => must build, never a panic
CRAFTED = [
    ("wrap-bare-param-struct", "vz.s x:int = vz.S;\nvz.wrap {T:Type} x:%T = vz.Wrap T;\nvz.h a:(vz.wrap vz.S) = vz.H;\n"),
    ("wrap-bare-param-union", "vz.ua x:int = vz.U;\nvz.ub y:string = vz.U;\nvz.wrap {T:Type} x:%T = vz.Wrap T;\nvz.h a:(vz.wrap vz.U) = vz.H;\n"),
    ("wrap-bare-param-maybe", "vz.wrap {T:Type} x:%T = vz.Wrap T;\nvz.h a:(vz.wrap (Maybe int)) = vz.H;\n"),
    ("wrap-bare-param-vector", "vz.wrap {T:Type} x:%T = vz.Wrap T;\nvz.h a:(vz.wrap (Vector int)) b:(vz.wrap (vector int)) = vz.H;\n"),
    ("wrap-boxed-param-union", "vz.ua x:int = vz.U;\nvz.ub y:string = vz.U;\nvz.wrap {T:Type} x:T = vz.Wrap T;\nvz.h a:(vz.wrap vz.U) b:(vz.Wrap vz.U) = vz.H;\n"),
    ("wrap-two-params", "vz.s x:int = vz.S;\nvz.two {A:Type} {B:Type} a:A b:%B c:(Maybe A) = vz.Two A B;\nvz.h t:(vz.two vz.S vz.S) u:(vz.Two int (Vector vz.S)) = vz.H;\n"),
    ("wrap-in-function", "vz.ua x:int = vz.U;\nvz.ub y:string = vz.U;\nvz.wrap {T:Type} x:%T = vz.Wrap T;\n---functions---\n@read vz.f a:(vz.wrap vz.U) = vz.Wrap (Maybe int);\n"),
    ("rpc-result-other-namespace", "vy.res x:int y:int = vy.Res;\nvy.item a:long = vy.Item;\n---functions---\n@read vz.fun key:string = vy.Res;\n@read vz.fun2 key:string n:int = Vector vy.item;\n@write vz.fun3 name:string = vy.Item;\n"),
    ("rpc-result-other-namespace-with-string", "vy.res x:int s:string = vy.Res;\n---functions---\n@read vz.fun key:string = vy.Res;\n@read vz.fun2 k:int = Vector vy.Res;\n"),
    ("deconflict-suffixed-name-before-reserved", "vz.chunk offset:long read0:int read:int = vz.Chunk;\nvz.chunk2 write:int write0:int w:long = vz.Chunk2;\nvz.chunk3 read0:int read1:int read:int write1:int write0:int write:int = vz.Chunk3;\n"),
    ("deconflict-template-instance-name", "vz.vectorInt0 a:int = vz.VectorInt0;\nvz.vectorInt b:int = vz.VectorInt;\nvz.h x:(vector int) y:(Vector int) = vz.H;\nvectorLong0 a:int = VectorLong0;\nvectorLong b:int = VectorLong;\nvz.g x:(vector long) = vz.G;\n"),
    ("deconflict-constants", "vz.item0 a:int = vz.Item0;\nvz.item a:int = vz.Item;\nvz.Item00 = vz.En;\nvz.item_0 = vz.En;\n"),
    ("constructor-in-function-namespace", "vy.res x:int y:int = vy.Res;\nvz.fun key:string = vy.Res;\n"),
]
KNOWN_BAD_TL2 = [("F14-bit-array", "x = var:[]bit;\n")]

OPTION_SETS = {
    "tl2all": ["--tl2WhiteList=*", "--generateByteVersions=*", "--generateRandomCode"],
    "tl1only": ["--generateRandomCode"],
    "split": ["--tl2WhiteList=*", "--split-internal", "--generateRandomCode", "--generateRPCCode"],
    "nosanity-bytes-ns": ["--tl2WhiteList=vz.", "--generateByteVersions=vz.", "--checkLengthSanity=false"],
    "rpc": ["--tl2WhiteList=*", "--generateRPCCode", "--generateRandomCode", "--generateByteVersions=*"],
    "rpc-bytes-ns": ["--tl2WhiteList=*", "--generateRPCCode", "--generateByteVersions=vz.", "--generateRandomCode"],
    "split-tl2-bytes": ["--tl2WhiteList=*", "--split-internal", "--generateByteVersions=*", "--generateRandomCode"],
}


def mutate_text(r, text):
    toks = TOK.findall(text)
    idx = [i for i, t in enumerate(toks) if not t.isspace() and not t.startswith("//")]
    if not idx:
        return text
    # mutate only the user part of the schema most of the time (after the prelude)
    for _ in range(1 + r.below(3)):
        i = r.pick(idx[len(idx) // 3:] if r.chance(4, 5) else idx)
        k = r.below(7)
        if k == 0:
            toks[i] = ""
        elif k == 1:
            toks[i] = toks[i] + " " + toks[i]
        elif k == 2:
            j = r.pick(idx)
            toks[i], toks[j] = toks[j], toks[i]
        elif k == 3:
            toks[i] = r.pick(ALPHABET)
        elif k == 4:
            toks[i] = toks[i] + " " + r.pick(ALPHABET)
        elif k == 5 and toks[i][0].isalpha():
            toks[i] = toks[i][0].swapcase() + toks[i][1:]
        else:
            toks[i] = r.pick(["%", "!", "(", ""]) + toks[i]
    return "".join(toks)


def run(ctx):
    thorough = ctx.tier == "thorough"
    ctx.make_scratch()
    tl2gen = gen.tool(ctx, "tl2gen")
    base = os.path.join(ctx.scratch, "internal", "vgen")
    os.makedirs(base, exist_ok=True)
    r = core.stream(ctx.seed, "c14")
    cases = []  # (name, files{fname: text}, optset, kind)
    nvalid = 120 if thorough else 8
    nmut = 1200 if thorough else 60
    valid_texts = []
    for i in range(nvalid):
        s = schemagen.generate(ctx.seed, "c14/%d" % i, rec_containers=(i % 2 == 1))
        valid_texts.append(s.text())
        cases.append(("v%d" % i, {"s.tl": s.text()}, list(OPTION_SETS)[i % len(OPTION_SETS)], "schemagen-valid"))
    repo_texts = [open(os.path.join(ctx.scratch, f)).read() for f in (gen.TLS + "cases.tl", gen.TLS + "goldmaster.tl")]
    for i in range(nmut):
        src = r.pick(valid_texts) if r.chance(3, 4) else r.pick(repo_texts)
        extra = {}
        if src in repo_texts and src is repo_texts[1]:
            for f in ("goldmaster2.tl", "goldmaster3.tl"):
                extra[f] = open(os.path.join(ctx.scratch, gen.TLS + f)).read()
        cases.append(("m%d" % i, dict({"s.tl": mutate_text(r.fork(i), src)}, **extra), r.pick(list(OPTION_SETS)), "mutated"))
    for i, txt in enumerate(COLLISION_SCHEMAS):
        cases.append(("c%d" % i, {"s.tl": schemagen.PRELUDE + txt}, "tl2all" if i % 2 == 0 else "tl1only", "name-collisions"))
    for nm, txt, opts in KNOWN_BAD:
        cases.append(("k" + nm.split("-")[0], {"s.tl": schemagen.PRELUDE + txt}, opts[0], "known-bad:" + nm))
    # the repository's own schemas under option sets upstream does not build them with (schema.tl + --split-internal + TL2 + byte versions is finding F31)
    repo_sets = [("schema", "split-tl2-bytes"), ("cases", "split-tl2-bytes")] + ([("goldmaster", "split-tl2-bytes"), ("schema", "rpc"), ("cases", "nosanity-bytes-ns")] if thorough else [])
    for setname, optset in repo_sets:
        cases.append(("r%s_%s" % (setname, re.sub(r"\W", "", optset)), {os.path.basename(f): open(os.path.join(ctx.scratch, f)).read() for f in gen.REPO_SETS[setname]}, optset, "repo:" + setname))
    for ci, (nm, txt) in enumerate(CRAFTED):
        for optset in (["rpc-bytes-ns", "tl2all"] if not thorough else ["rpc-bytes-ns", "tl2all", "tl1only", "split", "rpc"]):
            cases.append(("x%d%s" % (ci, re.sub(r"\W", "", optset)), {"s.tl": schemagen.PRELUDE + txt}, optset, "crafted:" + nm))
    for nm, txt in KNOWN_BAD_TL2:
        cases.append(("k" + nm.split("-")[0], {"s.tl2": txt}, "tl2all", "known-bad:" + nm))
    accepted = []
    stats = {"accepted": 0, "rejected": 0}
    for name, files, optset, kind in cases:
        d = os.path.join(base, "c14_" + name.lower())
        src = os.path.join(ctx.work, "c14src_" + name)
        os.makedirs(src, exist_ok=True)
        paths = []
        for fn, txt in files.items():
            p = os.path.join(src, fn)
            open(p, "w").write(txt)
            paths.append(p)
        out = os.path.join(d, "out")
        os.makedirs(d, exist_ok=True)
        rel = os.path.relpath(out, ctx.scratch)
        cmd = [tl2gen, "--language=go"] + OPTION_SETS[optset] + ["--outdir=" + out, "--pkgPath=%s/%s/tl" % (core.MODULE, rel), "--basicPkgPath=%s/pkg/basictl" % core.MODULE,
                                                                 "--basicRPCPath=%s/pkg/rpc" % core.MODULE, "--schemaTimestamp=1700000000"] + paths
        rr = ctx.run(cmd, cwd=ctx.scratch, timeout=120)
        ctx.count()
        text = rr.text(400000)
        sig = {"oracle": "generator", "schema": kind, "config": optset}
        files_for_replay = dict(files, **{"options.txt": " ".join(OPTION_SETS[optset])})
        if rr.timed_out:
            ctx.violation(dict(sig, **{"class": "hang"}), "tl2gen did not terminate within 120 s on a %s schema" % kind, files_for_replay)
            continue
        if core.PANIC_PATTERNS.search(text) or rr.rc not in (0, 1):
            m = core.PANIC_PATTERNS.search(text)
            cls = "panic"
            if re.search(r"panic: internal error: cannot get type of argument .*: internal error: instance .* must exist", text):
                cls = "panic:type-argument-instance-must-exist"  # finding F27: a template parameter that no field uses
            ctx.violation(dict(sig, **{"class": cls}), "tl2gen exit status %d, output shows a panic/internal error on a %s schema:\n%s" % (rr.rc, kind, text[max(0, (m.start() if m else 0) - 200):][:1500]), files_for_replay)
            continue
        if rr.rc == 1:
            stats["rejected"] += 1
            ctx.distinct("rejected/" + re.sub(r"[^a-z ]", "", text.lower())[-60:])
            if "TL Generation Failed" not in text or len(text.strip().splitlines()) < 2:
                ctx.violation(dict(sig, **{"class": "rejected-without-message"}), "tl2gen exited 1 without an error message:\n" + text[-500:], files_for_replay)
            if os.path.isdir(out) and any(True for _ in os.scandir(out)):
                ctx.violation(dict(sig, **{"class": "rejected-but-wrote-files"}), "tl2gen rejected the schema but left files in the output directory: %s" % sorted(os.listdir(out))[:5], files_for_replay)
            shutil.rmtree(d, ignore_errors=True)
            continue
        stats["accepted"] += 1
        accepted.append((name, rel, kind, optset, files_for_replay))
        ctx.distinct("accepted/%s/%s" % (kind, optset))
    # build everything that was accepted (one go build = parallel compilation); failures are attributed by directory
    failed = {}
    if accepted:
        rb = ctx.run(["go", "build", "-trimpath", "./internal/vgen/..."], cwd=ctx.scratch, timeout=3000)
        if rb.rc != 0:
            for line in rb.text().splitlines():
                m = re.match(r"^(?:# )?(?:github.com/VKCOM/tl/)?internal/vgen/(c14_[\w]+)/", line) or re.match(r"^internal/vgen/(c14_[\w]+)/", line)
                if m:
                    failed.setdefault(m.group(1), []).append(line)
            if not failed:
                raise core.CheckBroken("go build of accepted outputs failed in a way that cannot be attributed: " + rb.tail(1500))
    built = 0
    for name, rel, kind, optset, files_for_replay in accepted:
        key = "c14_" + name.lower()
        if key in failed:
            msgs = [l for l in failed[key] if ".go:" in l]
            norm = re.sub(r"\b[\w/.]*internal/vgen/c14_\w+/out/", "", msgs[0] if msgs else failed[key][0])
            norm = re.sub(r":\d+:\d+:", ":", norm)
            cls = "does-not-build"
            names = sorted(set(re.findall(r"field and method with the same name (\w+)", "\n".join(failed[key]))))
            for pat, c in (("field and method with the same name", "does-not-build:field-method-name-" + "-".join(names)),
                           (r"constants\.go:\d+:\d+: \w+ redeclared in this block", "does-not-build:constant-redeclared-after-name-mangling"),
                           (r"cannot use \(\*bool\)", "does-not-build:typedef-of-Bool-tl2"),
                           (r"cannot use v \(variable of type bool\)|as bool value in assignment|cannot use .* \(.*bool\) as", "does-not-build:empty-struct-under-mask"),
                           (r"undefined: BitReadTL1|undefined: BitWriteTL1|BitReadTL1|BitWriteTL1", "does-not-build:tl2-bit-array"),
                           (r"undefined: \w+Bytes\b", "does-not-build:undefined-bytes-version-type"),
                           (r"internal/tl/tlBuiltinDict\w+/dict_field\.go:\d+:\d+: \"[^\"]+\" imported and not used", "does-not-build:split-internal-dictionary-unused-import")):
                if any(re.search(pat, l) for l in failed[key]):
                    cls = c
                    break
            ctx.violation({"oracle": "generator", "class": cls, "schema": kind, "config": optset},
                          "tl2gen accepted a %s schema (options %s) but the generated package does not compile:\n%s" % (kind, optset, "\n".join(failed[key][:8])), files_for_replay)
        else:
            built += 1
    # other output kinds go through the panic / exit-status monitors
    others = 0
    for lang in ["lint", "tlo", "canonical", "tljson.html"]:
        for i, txt in enumerate(valid_texts[:4] + [mutate_text(r.fork("o%d" % k), valid_texts[k % len(valid_texts)]) for k in range(8 if not thorough else 60)]):
            p = os.path.join(ctx.work, "c14o_%s_%d.tl" % (lang.replace(".", "_"), i))
            open(p, "w").write(txt)
            cmd = [tl2gen, "--language=" + lang, "--schemaTimestamp=1700000000"] + (["--outfile=" + p + ".out"] if lang != "lint" else []) + [p]
            rr = ctx.run(cmd, cwd=ctx.scratch, timeout=120)
            others += 1
            ctx.count()
            text = rr.text(200000)
            if (rr.timed_out or core.PANIC_PATTERNS.search(text) or rr.rc not in (0, 1)) and lang != "lint":
                # tlo / canonical / tljson.html are not the Go generator: observed, reported as a note, not as a violation of C14
                ctx.note("advisory: tl2gen --language=%s exit status %d / panic on a schema (not the Go generator): %s" % (lang, rr.rc, text[-300:].replace("\n", " ")))
                c = ctx.cov.setdefault("counters", {})
                c["advisory_panics_other_output_kinds"] = c.get("advisory_panics_other_output_kinds", 0) + 1
            elif rr.timed_out or core.PANIC_PATTERNS.search(text) or rr.rc not in (0, 1):
                ctx.violation({"oracle": "generator", "class": "panic", "schema": "other-language", "config": lang},
                              "tl2gen --language=%s exit status %d / panic on a schema:\n%s" % (lang, rr.rc, text[-1200:]), {"s.tl": txt})
    ctx.cov.setdefault("counters", {}).update({"accepted": stats["accepted"], "rejected": stats["rejected"], "accepted_and_built": built, "other_language_runs": others})
    ctx.sample({"valid_schema_excerpt": valid_texts[0][1250:1700], "option_sets": OPTION_SETS})
    ctx.cov["rule"] = ("cases = SchemaGen valid schemas x 5 option sets (TL2 whitelist * / one namespace / none, byte versions, split-internal, RPC code, length sanity off), "
                       "token-level mutants of SchemaGen and repository schemas (mostly invalid), name-collision stress schemas (case-only and namespace-only differences, Go "
                       "keywords, generated method names), and a dedicated slice of constructs known not to compile (F14, F17, F18, F19). Each case runs the real tl2gen "
                       "as a child under a watchdog: exit status in {0,1}, no panic / internal error / 'will not compile' text; exit 1 => message before "
                       "'TL Generation Failed' and an empty output directory; exit 0 => the generated packages compile together with pkg/basictl (one go build over all "
                       "accepted outputs, failures attributed by directory). lint (the kernel stage shared with the Go generator) goes through the panic and exit monitors; tlo / canonical / tljson.html runs are observed and reported as advisory notes only. "
                       "distinct_nontrivial = distinct (outcome, kind, option set / error text).")
    ctx.require("accepted schemas", stats["accepted"], 8 if not thorough else 40)
    ctx.require("rejected schemas", stats["rejected"], 20 if not thorough else 150)
    ctx.require("accepted and built", built, 6 if not thorough else 30)
