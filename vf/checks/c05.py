"""C05 JSON round trip and validity of generated Go code (engine A)."""
from .. import codec

RULE = ("for every item and variant: values from FillRandom and hostile read-back values (invalid UTF-8 strings and dictionary keys, escapes, every float class "
        "incl. NaN payloads, +-Inf, -0); JSON written with both JSONWriteContext flag sets must be valid for encoding/json and the easyjson lexer; reading it "
        "back gives a value with identical JSON, TL1 and TL2 (bit-exact; all NaNs are one value). distinct_nontrivial = distinct (item, variant, JSON hash bucket).")


def run(ctx):
    codec.simple_check(ctx, "c05", RULE, [("types", "types", 150), ("values", "values", 5000), ("round trips", "json_roundtrips_ok", 4000)], 60, 400, random_quick=3, random_thorough=30)
