"""C25 canonical schema listing is faithful to the schema (engine C + in-package parser)."""
import os
import re

from .. import gen, schemagen, schemaout
from .c17 import scan_tl

LEGACY = """
reqError#b527877d {X:Type} error_code:int error:string = ReqResult X;
reqResultHeader#8cc84ce1 {X:Type} flags:# result:X = ReqResult X;
_ {X:Type} result:X = ReqResult X;
engine.query {X:Type} query:!X = engine.Query;
engine.queryShortened query:%(VectorTotal int) = engine.Query;
vectorTotal {t:Type} total_count:int vector:%(Vector t) = VectorTotal t;
legacy.user#0d0e0f01 id:int name:string = legacy.User;
---functions---
@any rpcDestActor#7568aabd {X:Type} actor_id:long query:!X = X;
@any rpcDestFlags#e352035e {X:Type} flags:int query:!X = X;
@read legacy.getUser id:int = legacy.User;
"""


def old_generator_listing(ctx):
    """the old generator's own command line (tlgen --canonicalFormPath): every combinator of the input, by name and tag, is in the listing"""
    tlgen = gen.tool(ctx, "tlgen")
    tl2gen = gen.tool(ctx, "tl2gen")
    legacy = os.path.join(ctx.work, "legacy.tl")
    open(legacy, "w").write(schemagen.PRELUDE + LEGACY)
    crafted = os.path.join(ctx.work, "crafted_c25.tl")
    open(crafted, "w").write(schemagen.PRELUDE + schemaout.CRAFTED)
    n = 0
    for name, files in [("legacy", [legacy]), ("crafted", [crafted]), ("cases", [os.path.join(ctx.scratch, f) for f in gen.REPO_SETS["cases"]]),
                        ("goldmaster", [os.path.join(ctx.scratch, f) for f in gen.REPO_SETS["goldmaster"]])]:
        out = os.path.join(ctx.work, "oldgen_%s.canonical" % name)
        r = ctx.run([tlgen, "--canonicalFormPath=" + out] + files, cwd=ctx.work, timeout=300)
        if r.rc != 0 or not os.path.exists(out):
            ctx.note("tlgen --canonicalFormPath not produced for %s: %s" % (name, r.tail(200).replace("\n", " ")))
            continue
        listing = [re.sub(r"\s*//.*$", "", l).strip() for l in open(out).read().splitlines() if l.strip()]
        heads = {}
        for l in listing:
            m = re.match(r"(?:@\w+\s+)*([A-Za-z_][\w.]*)#([0-9a-f]{8})", l)
            if m:
                heads[m.group(1)] = heads.get(m.group(1), 0) + 1
        expected = {}
        for f in files:
            expected.update(scan_tl(open(f).read()))
        n += 1
        ctx.count()
        sig = {"oracle": "canonical", "schema": "tlgen:" + name}
        for cname, exp in expected.items():
            if exp["builtin"]:
                continue
            if heads.get(cname, 0) != 1:
                ctx.violation(dict(sig, **{"class": "old-generator-listing-misses-combinator"}), "tlgen --canonicalFormPath on %s: combinator %s is listed %d times (expected once)" % (name, cname, heads.get(cname, 0)),
                              {"listing.txt": "\n".join(listing)})
                break
        # both generators print the same lines for the same input
        out2 = os.path.join(ctx.work, "newgen_%s.canonical" % name)
        r2 = ctx.run([tl2gen, "--language=canonical", "--outfile=" + out2] + files, cwd=ctx.work, timeout=300)
        if r2.rc == 0 and os.path.exists(out2):
            l2 = [re.sub(r"\s*//.*$", "", l).strip() for l in open(out2).read().splitlines() if l.strip()]
            if sorted(l2) != sorted(listing):
                diff = sorted(set(l2) ^ set(listing))[:4]
                ctx.violation(dict(sig, **{"class": "old-and-new-generator-listings-differ"}), "canonical listing of %s differs between tlgen --canonicalFormPath and tl2gen --language=canonical: %s" % (name, diff))
            ctx.distinct("tlgen/" + name)
    ctx.cov.setdefault("counters", {})["old_generator_listings"] = n


def run(ctx):
    thorough = ctx.tier == "thorough"
    t, n = schemaout.run(ctx, True, False, 120 if thorough else 12, "c25")
    ctx.cov["rule"] = ("tl2gen --language=canonical on every repository schema set and N random SchemaGen schemas; every line is cut at its trailing '// file' comment, "
                       "terminated with ';' and parsed with the TL1 parser (functions in a functions section): one line per non-primitive combinator (+5 primitives), "
                       "each schema combinator exactly once; name, explicit tag == effective tag of the input combinator (explicit or CRC32), template arguments, "
                       "annotations; fields (names, masks, repetitions with scale, types with effective bareness and arithmetic by value) and result types are compared "
                       "for combinators without nested type applications (the canonical form flattens those, so only names/tags/arity are compared there). "
                       "distinct_nontrivial = distinct (schema, combinator) fully compared.")
    old_generator_listing(ctx)
    ctx.cov["rule"] += " The old generator's command line (tlgen --canonicalFormPath) on a legacy-shapes schema, the crafted schema, cases and goldmaster: every combinator of the input (independent text scan) is listed exactly once, and the listing equals tl2gen's."
    ctx.require("schema sets", n, 10)
    ctx.require("canonical lines", t.get("canonical_lines", 0), 500)
    ctx.require("lines fully compared", t.get("canonical_lines_fully_compared", 0), 250)
