//go:build verif

// Linter monitor (C28-C30): runs CheckBackwardCompatibility(new, old) on schema pairs prepared by /verif
// (file VERIF_LINT_CASES: one JSON object per line with id, old, new) and reports the verdicts.
package vlint

import (
	"bufio"
	"encoding/json"
	"fmt"
	"os"
	"testing"

	"github.com/VKCOM/tl/internal/tlast"
	"github.com/VKCOM/tl/internal/tlcodegen"
)

type lintCase struct {
	ID  int    `json:"id"`
	Old string `json:"old"`
	New string `json:"new"`
}

func lint(oldS, newS string) (verdict string, msg string) {
	defer func() {
		if r := recover(); r != nil {
			verdict, msg = "PANIC", fmt.Sprint(r)
		}
	}()
	o, err := tlast.ParseTLFile(oldS, "old.tl", tlast.LexerOptions{AllowBuiltin: true})
	if err != nil {
		return "PARSE-OLD", err.Error()
	}
	n, err := tlast.ParseTLFile(newS, "new.tl", tlast.LexerOptions{AllowBuiltin: true})
	if err != nil {
		return "PARSE-NEW", err.Error()
	}
	if e := tlcodegen.CheckBackwardCompatibility(n.Combinators(), o.Combinators()); e != nil {
		return "REJECT", e.Error()
	}
	return "ACCEPT", ""
}

func TestVerifLint(t *testing.T) {
	f, err := os.Open(os.Getenv("VERIF_LINT_CASES"))
	if err != nil {
		t.Skip()
	}
	defer f.Close()
	sc := bufio.NewScanner(f)
	sc.Buffer(make([]byte, 1<<20), 1<<26)
	w := bufio.NewWriter(os.Stdout)
	defer w.Flush()
	n := 0
	for sc.Scan() {
		var c lintCase
		if json.Unmarshal(sc.Bytes(), &c) != nil {
			continue
		}
		v, m := lint(c.Old, c.New)
		if len(m) > 300 {
			m = m[:300]
		}
		b, _ := json.Marshal(map[string]any{"t": "verdict", "id": c.ID, "verdict": v, "msg": m})
		fmt.Fprintf(w, "@@%s\n", b)
		n++
	}
	b, _ := json.Marshal(map[string]any{"t": "summary", "name": "lint", "counters": map[string]int{"pairs": n}, "distinct": 0, "violations": 0})
	fmt.Fprintf(w, "@@%s\n", b)
}
