"""C22 TL2 formatter round-trips and is idempotent."""
from .. import inpkg


def run(ctx):
    n = 4000 if ctx.tier == "quick" else 150000
    ctx.cov["rule"] = ("files = every repository .tl2 file, hand-written corner cases (ignored fields, comments, single-variant unions, long lines), "
                       "N files from an own syntactic TL2 generator (with and without layout noise, pragma comments, lines around the 80/120 column "
                       "thresholds), parseable mutants. Oracle per option set (default, canonical): parse -> Print -> parse gives structurally equal "
                       "declarations (reflection walk ignoring positions/comments; ignored fields compared by ignoredness), Print of the reparsed file "
                       "is byte-identical. distinct_nontrivial = distinct normalised declarations.")
    r, ev = inpkg.run_inpkg(ctx, "inpkg/tlast", "internal/tlast", "^TestVerifC22$", env={"VERIF_N": n}, timeout=1500)
    sm = inpkg.absorb(ctx, r, ev, "TL2 formatter")
    t = inpkg.merge_counters(ctx, sm)
    ctx.count(t.get("formatted", 0))
    ctx.require("formatted files", t.get("formatted", 0), n)
    ctx.require("generated files parsed", t.get("files_generated", 0), n // 2)
    ctx.require("repository files parsed", t.get("files_repo", 0), 2)
