"""C40 RPC request/response extras are transmitted unchanged (engine G, -race)."""
from .. import inpkg


def run(ctx):
    thorough = ctx.tier == "thorough"
    ctx.cov["rule"] = ("calls with random RequestExtra (generated FillRandom over every flag combination; no_result/custom_timeout/trace/execution context, which "
                       "the client library manages itself, are cleared, 1/4 of the calls set an explicit custom timeout without a context deadline), random "
                       "ResponseExtra set by the handler, body format TL1/TL2, actor id <= 0, 1/5 of the handlers return rpc.Error (1/4 of those with code 0); "
                       "with and without crypto keys. Oracle: the TL1 bytes of the extra the handler saw == those the client set; BodyFormatTL2 and actor equal; "
                       "client-side response extra == handler's extra restricted to the advertised request bits (also for error responses); error code and "
                       "description equal (code 0 must not arrive as 0). distinct_nontrivial = distinct (request flags, format, error-ness).")
    env = {"VERIF_N": 400000 if thorough else 2400}
    r, ev = inpkg.run_inpkg(ctx, "rpcmon", "pkg/rpc/vmon", "^TestVerifC40$", env=env, race=True, timeout=3400)
    sm = inpkg.absorb(ctx, r, ev, "rpc extras")
    t = inpkg.merge_counters(ctx, sm)
    for key, block in inpkg.race_reports(r):
        ctx.violation({"oracle": "race-detector", "class": key}, "data race reported in the extras workload:\n" + block, {"race.txt": block})
    ctx.count(t.get("calls", 0))
    ctx.require("calls", t.get("calls", 0), env["VERIF_N"] * 9 // 10)
    ctx.require("non-empty response extras", t.get("response_extras_nonempty", 0), env["VERIF_N"] // 20)
    ctx.require("errors", t.get("errors_checked", 0), env["VERIF_N"] // 20)
