"""Differential between generated code and RefCodec-TL1 on random schemas (engine B)."""
import json
import os

from . import codec, core, gen, inpkg, schemagen


def mutate(r, b):
    b = bytearray(b)
    if not b:
        return bytes([r.below(256)]), "grow"
    k = r.below(12)
    if k == 0:
        return bytes(b[:r.below(len(b))]), "truncate"
    if k == 1:
        b[r.below(len(b))] ^= 1 << r.below(8)
        return bytes(b), "bitflip"
    if k == 2:
        b[r.below(len(b))] = r.below(256)
        return bytes(b), "byteset"
    if k == 3 and len(b) >= 4:
        p = r.below(len(b) // 4) * 4
        b[p:p + 4] = r.pick([b"\0\0\0\0", b"\x01\0\0\0", b"\xff\xff\xff\xff", b"\xb5\x75\x72\x99", b"\x37\x97\x79\xbc", b"\x39\xd3\xed\x3f", b"\x7b\x0a\x93\x27", b"\xf8\x8e\x9c\x3f"])
        return bytes(b), "word-special"
    if k == 4 and len(b) >= 4:
        p = r.below(len(b) // 4) * 4
        x = int.from_bytes(b[p:p + 4], "little")
        x = (x + r.pick([1, -1, 2, -2])) & 0xffffffff
        b[p:p + 4] = x.to_bytes(4, "little")
        return bytes(b), "word-plusminus"
    if k == 5:
        return bytes(b) + bytes(r.below(256) for _ in range(1 + r.below(8))), "append"
    if k == 6 and len(b) >= 4:
        p = r.below(len(b) // 4) * 4
        return bytes(b[:p] + b[p + 4:]), "worddel"
    if k == 7 and len(b) >= 4:
        p = r.below(len(b) // 4) * 4
        return bytes(b[:p + 4] + b[p:]), "worddup"
    if k == 8:
        p = r.below(len(b))
        b[p] = r.pick([0xfe, 0xff, (b[p] + 1) & 255, (b[p] - 1) & 255, 0, 253])
        return bytes(b), "lenbyte"
    if k == 9:
        zs = [i for i, c in enumerate(b) if c == 0]
        if zs:
            b[r.pick(zs)] = 1 + r.below(255)
        return bytes(b), "zero-to-nonzero"
    if k == 10 and len(b) >= 4:
        p = r.below(len(b) // 4) * 4
        b[p:p + 4] = r.pick([len(b) // 4, len(b) // 4 + 1, 5, 3, 2, 1]).to_bytes(4, "little")
        return bytes(b), "count-small"
    p = r.below(len(b))
    return bytes(b[:p] + b[p + 1:]), "delete-byte"


class _FnCodec:
    """functions as items for the differential: always boxed (tag + arguments)"""

    def __init__(self, rc):
        self.rc = rc

    def value(self, d):
        if isinstance(d, schemagen.Function):
            return self.rc.fields_value(d.fields, {}, 0)
        return self.rc.decl_value(d, {}, 0)

    def enc(self, d, v, boxed):
        if isinstance(d, schemagen.Function):
            return self.rc.encode_function(d, v)
        return self.rc.encode_item(d, v, boxed)

    def dec(self, d, data, boxed):
        if isinstance(d, schemagen.Function):
            if len(data) < 4:
                raise schemagen.RefError("eof")
            if int.from_bytes(data[:4], "little") != d.tag:
                raise schemagen.RefError("tag")
            return self.rc.dec_fields(d.fields, data, 4, {})
        return self.rc.decode_item(d, data, boxed)


def run_schema(ctx, idx, config="tl2all", values=25, fills=25, mutations=4, label="c11", tl2=False, tl2alt=False, report=None):
    """one random schema: generate, build, compare. Returns counters dict or None when the generator rejected the schema."""
    s = schemagen.generate(ctx.seed, "%s/%d" % (label, idx)) if idx >= 0 else schemagen.fixed_shapes()
    name = "rnd%s%d" % (label if label != "c11" else "", idx) if idx >= 0 else "fixed_shapes_" + label
    path = os.path.join(ctx.work, name + ".tl")
    open(path, "w").write(s.text())
    pkg = codec.build_pkg(ctx, name, [path], config, must=False)
    cnt = {"schemas_generated": 1}
    if pkg is None:
        cnt["schemas_rejected_or_not_built"] = 1
        return cnt, s
    rc = schemagen.RefCodec(s, core.stream(ctx.seed, "%sv/%d" % (label, idx)))
    fc = _FnCodec(rc)
    r = core.stream(ctx.seed, "%sm/%d" % (label, idx))
    for fn in s.functions:
        fn.kind, fn.lname, fn.uname, fn.params = "function", fn.name, fn.name, []
    cases = []  # (id, kind, decl/fn, boxed, bytes, expect)
    lines = []

    def add_read(d, boxed, data, expect, what):
        cid = len(cases)
        cases.append({"id": cid, "op": "R", "decl": d, "boxed": boxed, "data": data, "expect": expect, "what": what})
        lines.append("R %d %s %d %s" % (cid, d.constructors[0].lname if d.kind in ("struct", "typedef") else d.uname, 1 if boxed else 0, data.hex() or "00" * 0))

    items = [d for d in s.decls if not d.params] + list(s.functions)
    for d in items:
        for vi in range(values):
            if vi == 1:
                rc.force_long = r.pick([65789, 65790, 65791, 65786, 65787])  # one value per item with a string at the TL2 size boundary
            v = fc.value(d)
            rc.force_long = 0
            for boxed in ([True, False] if d.kind in ("struct", "typedef") else [True]):
                data = fc.enc(d, v, boxed)
                if len(data) > 200000:
                    continue
                add_read(d, boxed, data + b"\xde\xad\xbe\xef", ("accept", len(data), data), "ref-encoded")
                if tl2 and boxed and not isinstance(d, schemagen.Function):
                    try:
                        want2 = rc.encode_item_tl2(d, v)
                    except (RecursionError, KeyError, AttributeError, TypeError):
                        want2 = None
                    if want2 is not None:
                        cid = len(cases)
                        cases.append({"id": cid, "op": "T2", "decl": d, "data": data, "want": want2, "negzero": rc.saw_negative_zero})
                        lines.append("T2 %d %s 1 %s" % (cid, d.constructors[0].lname if d.kind in ("struct", "typedef") else d.uname, data.hex()))
                    if want2 is not None and tl2 and not rc.saw_negative_zero:
                        cid = len(cases)
                        cases.append({"id": cid, "op": "R2", "decl": d, "data": want2, "want": want2, "canonical": True})
                        lines.append("R2 %d %s %s" % (cid, d.constructors[0].lname if d.kind in ("struct", "typedef") else d.uname, want2.hex() or "-"))
                    if want2 is not None and tl2alt and not rc.saw_negative_zero:
                        # equal but non-canonical TL2 encodings of the same value: empty fields given explicitly, explicit zero masks, empty objects as 01 00 / 9-byte zero
                        for ai in range(3):
                            rc.alt2 = core.stream(ctx.seed, "%s-alt/%d/%s/%d/%d" % (label, idx, d.lname, vi, ai))
                            try:
                                alt = rc.encode_item_tl2(d, v)
                            finally:
                                rc.alt2 = None
                            if alt == want2:
                                continue
                            cid = len(cases)
                            cases.append({"id": cid, "op": "R2", "decl": d, "data": alt, "want": want2})
                            lines.append("R2 %d %s %s" % (cid, d.constructors[0].lname if d.kind in ("struct", "typedef") else d.uname, alt.hex() or "-"))
                for _ in range(mutations):
                    m, mk = mutate(r, data)
                    try:
                        rc.unsorted_dict = False
                        v2, n = fc.dec(d, m, boxed)
                        re_enc = fc.enc(d, v2, boxed)
                        exp = ("accept", n, re_enc) if re_enc == m[:n] and not rc.unsorted_dict else ("accept-noncanonical", n, re_enc)
                    except schemagen.RefError as e:
                        exp = ("reject", str(e))
                    except (RecursionError, MemoryError, OverflowError):
                        continue
                    add_read(d, boxed, m, exp, "mutated:" + mk)
        for fi in range(fills):
            cid = len(cases)
            cases.append({"id": cid, "op": "F", "decl": d})
            lines.append("F %d %s %d" % (cid, d.constructors[0].lname if d.kind in ("struct", "typedef") else d.uname, ctx.seed * 1000 + fi))
    cf = os.path.join(ctx.work, name + ".cases")
    open(cf, "w").write("\n".join(l if not l.endswith(" ") else l + "-" for l in lines) + "\n")
    t, extra = codec.run_mode(ctx, pkg, "serve", env={"VERIF_CASES": cf}, what="reference differential on random schema %d" % idx)
    res = {ev["id"]: ev for ev in extra if ev.get("t") == "res"}
    cnt["schemas_compared"] = 1
    cnt["items"] = len(items)

    def viol(cls, c, desc, extra_files=None):
        d = c["decl"]
        files = {"schema.tl": s.text(), "case.json": json.dumps({k: (v.hex() if isinstance(v, bytes) else str(v)) for k, v in c.items() if k != "decl"}, indent=1)}
        ctx.violation({"oracle": "refcodec", "class": cls, "item": d.lname, "schema": "random:%d" % idx, "kind": d.kind}, "random schema %d, item %s (%s): %s" % (idx, d.lname, d.kind, desc), files)

    for c in cases:
        ev = res.get(c["id"])
        if ev is None:
            cnt["cases_without_answer"] = cnt.get("cases_without_answer", 0) + 1
            continue
        if ev.get("missing"):
            cnt["items_not_in_registry"] = cnt.get("items_not_in_registry", 0) + 1
            continue
        d = c["decl"]
        if report is not None and c["op"] not in report:
            continue  # this caller decides only some of the observations (the others belong to C11)
        if c["op"] == "R2":
            if ev.get("notl2") or ev.get("panic"):
                continue
            if c.get("canonical"):
                cnt["tl2_reference_bytes_read"] = cnt.get("tl2_reference_bytes_read", 0) + 1
                if not ev.get("ok"):
                    viol("tl2-reference-bytes-rejected", c, "generated TL2 reader rejects the reference TL2 encoding of a value: %s; bytes %s" % (ev.get("err"), c["want"].hex()[:300]))
                elif ev.get("rest") != 3 or ev["tl2"] != c["want"].hex():
                    viol("tl2-reference-bytes-read-differently", c, "generated TL2 reader leaves %s bytes (3 expected) of the reference TL2 encoding or rewrites it differently: %s vs %s" % (ev.get("rest"), ev.get("tl2", "")[:300], c["want"].hex()[:300]))
                else:
                    cnt["agree_tl2_read"] = cnt.get("agree_tl2_read", 0) + 1
                continue
            cnt["tl2_alternative_encodings"] = cnt.get("tl2_alternative_encodings", 0) + 1
            if not ev.get("ok"):
                viol("tl2-alternative-encoding-rejected", c, "generated TL2 reader rejects an equal, non-canonical encoding (explicit empties / zero masks): %s; canonical %s alternative %s" % (ev.get("err"), c["want"].hex()[:300], c["data"].hex()[:300]))
            elif ev.get("rest") != 3:
                viol("tl2-alternative-encoding-consumed-differently", c, "generated TL2 reader leaves %s bytes (3 expected) of an equal, non-canonical encoding; canonical %s alternative %s" % (ev.get("rest"), c["want"].hex()[:300], c["data"].hex()[:300]))
            elif ev["tl2"] != c["want"].hex():
                viol("tl2-alternative-encoding-different-value", c, "an equal, non-canonical TL2 encoding decodes to a different value: rewritten %s, canonical %s, alternative %s" % (ev["tl2"][:300], c["want"].hex()[:300], c["data"].hex()[:300]))
            else:
                cnt["agree_tl2_alternative"] = cnt.get("agree_tl2_alternative", 0) + 1
                ctx.distinct("%d/%s/tl2alt" % (idx, d.lname))
            continue
        if c["op"] == "T2":
            if ev.get("notl2") or ev.get("panic") or not ev.get("ok"):
                continue
            cnt["tl2_compared"] = cnt.get("tl2_compared", 0) + 1
            if ev["tl2"] != c["want"].hex():
                cl = "tl2-bytes-differ-negative-zero" if c["negzero"] else "tl2-bytes-differ"
                viol(cl, c, "TL2 written by generated code %s, reference TL2 %s (value given as TL1 %s)" % (ev["tl2"][:300], c["want"].hex()[:300], c["data"].hex()[:300]))
            else:
                cnt["agree_tl2"] = cnt.get("agree_tl2", 0) + 1
                ctx.distinct("%d/%s/tl2" % (idx, d.lname))
            continue
        if c["op"] == "R":
            cnt["reads"] = cnt.get("reads", 0) + 1
            exp = c["expect"]
            if ev.get("panic"):
                continue  # reported by the harness
            if "bok" in ev and exp[0] in ("accept", "reject") and ev["bok"] != (exp[0] == "accept") and ev.get("ok") == (exp[0] == "accept"):
                viol("bytes-variant-accepts-invalid" if ev["bok"] else "bytes-variant-rejects-valid", c, "the []byte variant of the generated reader %s bytes that the reference codec and the string variant %s (%s); input %s" % (
                    "accepts" if ev["bok"] else "rejects", "reject" if ev["bok"] else "accept", c["what"], c["data"].hex()[:400]))
            if exp[0] == "accept":
                if not ev.get("ok"):
                    cl = "rejects-valid" if c["what"] == "ref-encoded" else "rejects-valid-mutant"
                    if "min object size" in str(ev.get("err")) and schemagen.has_small_element_arrays(d):
                        cl = "rejects-valid-length-sanity-small-elements"
                    viol(cl, c, "generated reader rejects bytes the reference codec accepts canonically (%s): %s; input %s" % (c["what"], ev.get("err"), c["data"].hex()[:400]))
                elif ev["consumed"] != exp[1]:
                    viol("consumed-length", c, "generated reader consumed %d bytes, reference %d (%s); input %s" % (ev["consumed"], exp[1], c["what"], c["data"].hex()[:400]))
                elif ev["rewrite"] != exp[2].hex():
                    viol("rewrite-differs", c, "generated code re-encodes to %s, reference %s (%s)" % (ev["rewrite"][:300], exp[2].hex()[:300], c["what"]))
                else:
                    cnt["agree_accept"] = cnt.get("agree_accept", 0) + 1
                    ctx.distinct("%d/%s/%s/accept" % (idx, d.lname, c["what"]))
            elif exp[0] == "reject":
                if ev.get("ok"):
                    viol("accepts-invalid", c, "generated reader accepts bytes the reference codec rejects (%s: %s); consumed %d, rewrite %s; input %s" % (c["what"], exp[1], ev["consumed"], ev["rewrite"][:200], c["data"].hex()[:400]))
                else:
                    cnt["agree_reject"] = cnt.get("agree_reject", 0) + 1
                    ctx.distinct("%d/%s/%s/reject" % (idx, d.lname, c["what"]))
            else:
                cnt["ref_noncanonical_skipped"] = cnt.get("ref_noncanonical_skipped", 0) + 1
        else:
            if "boxed" not in ev:
                continue
            cnt["fills"] = cnt.get("fills", 0) + 1
            for form, boxed in (("boxed", True), ("bare", False)):
                if d.kind in ("union", "enum", "function") and not boxed:
                    continue
                data = bytes.fromhex(ev[form])
                try:
                    v, n = fc.dec(d, data, boxed)
                    again = fc.enc(d, v, boxed)
                except schemagen.RefError as e:
                    viol("ref-rejects-generated-output", dict(c, data=data), "reference codec cannot decode %s TL1 written by generated code (%s): %s" % (form, e, data.hex()[:400]))
                    continue
                except (RecursionError, MemoryError):
                    continue
                if n != len(data) or again != data:
                    viol("ref-decodes-differently", dict(c, data=data), "reference codec decodes %s TL1 written by generated code to a value that re-encodes differently (consumed %d of %d)" % (form, n, len(data)))
                else:
                    cnt["agree_fill"] = cnt.get("agree_fill", 0) + 1
                    ctx.distinct("%d/%s/fill" % (idx, d.lname))
    if idx < 2:
        ctx.sample({"schema_excerpt": s.decls[0].text()[:300], "items": len(items), "cases": len(cases)})
    return cnt, s
