"""C13 TL2 readers tolerate schema evolution and non-minimal encodings (engine A; structure from the interpreter's byte roles)."""
import os

from .. import codec, refdiff

RULE = ("packages generated from the repository schemas and random SchemaGen schemas. Outermost object (schema-free): size in huge (0xff) form, an empty object as a huge-form "
        "zero size => accepted, exactly consumed (suffix check), same value; declared size 1-4 bytes beyond the input => rejected. At depth: for values on which generated "
        "code and the dynamic interpreter write the same bytes, the interpreter's ByteBuilder gives the role of every byte (object size, element count, variant index, string "
        "size, field mask); with the positions of all size fields the canonical bytes are rewritten - any size / count / index / string length at any nesting depth in the "
        "9-byte form (enclosing sizes repaired), an empty object as size 1 + zero mask byte, unknown trailing bytes (and a presence bit the schema does not have) in an "
        "outermost struct with one mask block => accepted, exactly consumed, rewritten to the canonical bytes; a nested size that declares more than its parent has left => "
        "rejected. distinct_nontrivial = distinct (item, transformation).")


def run(ctx):
    thorough = ctx.tier == "thorough"
    ctx.make_scratch()
    sets = codec.REPO_SETS_ALL if thorough else codec.REPO_SETS_QUICK
    pkgs = [(p, None) for p in codec.repo_packages(ctx, sets, ["tl2all"] + (["split", "nobytes"] if thorough else []))]
    pkgs += codec.random_packages(ctx, 20 if thorough else 2, "c13")
    # the crafted TL2-origin schema (reserved fields at presence-block boundaries, optional and bit fields in later blocks)
    xp = os.path.join(ctx.work, "crafted_c13_shapes.tl2")
    with open(xp, "w") as f:
        f.write(codec.tl2_shapes())
    sp = codec.build_pkg(ctx, "crafted_c13_shapes_tl2", [xp], "tl2all")
    sp.schema = "crafted:shapes.tl2"
    pkgs.append((sp, None))
    tot = {}
    for p, sch in pkgs:
        env = {"VERIF_VALUES": 300 if thorough else 40}
        t, _ = codec.run_mode(ctx, p, "c13", env=env, reclass=codec.sanity_reclass(sch) if sch else None)
        for k, v in t.items():
            tot[k] = tot.get(k, 0) + v
        if p.config == "tl2all" and p.schema in ("casestl2", "crafted:shapes.tl2"):
            # the interpreter that supplies the byte roles does not model TL2-origin types (finding F35, C12): no depth transformations on this set
            ctx.cov.setdefault("counters", {})["deep_sets_skipped_(interpreter_does_not_model_tl2_origin_types)"] = 1
        elif p.config == "tl2all":
            env = {"VERIF_VALUES": 60 if thorough else 16, "VERIF_TL2WL": "*", "VERIF_SCHEMA_FILES": ":".join(p.files)}
            t, _ = codec.run_mode(ctx, p, "c13deep", env=env, what="c13deep on %s/%s" % (p.schema, p.config))
            for k, v in t.items():
                tot["deep_" + k] = tot.get("deep_" + k, 0) + v
    # schema-aware: equal, non-canonical encodings built by the independent TL2 encoder (RefCodec-TL2 in alternative mode)
    rtot = {}
    for i in [-1] + list(range(12 if thorough else 3)):
        cnt, _ = refdiff.run_schema(ctx, i, values=40 if thorough else 20, fills=0, mutations=0, label="c13r", tl2=True, tl2alt=True, report=("R2",))
        for k, v in cnt.items():
            rtot[k] = rtot.get(k, 0) + v
    ctx.cov.setdefault("counters", {}).update({"ref_" + k: v for k, v in rtot.items()})
    ctx.cov["rule"] = RULE + (" Schema-aware: for values of random schemas and a fixed shapes schema, RefCodec-TL2 writes equal but non-canonical encodings (an empty field given explicitly "
                              "with its presence bit, explicit zero presence masks at the end of a body, empty objects / arrays / Maybe as 00, 01 00 or the 9-byte zero size) => accepted, "
                              "exactly consumed, rewritten to the canonical bytes.")
    ctx.count(tot.get("values", 0) + tot.get("deep_values_with_structure", 0))
    nested = sum(v for k, v in tot.items() if k.startswith("deep_huge-form-") and k.endswith("-nested"))
    ctx.cov.setdefault("counters", {})["deep_nested_non_minimal_forms"] = nested
    ctx.require("types", tot.get("types", 0), 100)
    ctx.require("values", tot.get("values", 0), 3000)
    ctx.require("huge-form sizes (outermost)", tot.get("huge_form_sizes", 0), 3000)
    ctx.require("oversize objects", tot.get("oversize_objects", 0), 3000)
    ctx.require("values with known structure", tot.get("deep_values_with_structure", 0), 1000)
    ctx.require("nested non-minimal forms", nested, 1000)
    ctx.require("explicit zero masks", tot.get("deep_empty-object-as-explicit-zero-mask", 0), 100)
    ctx.require("unknown trailing fields", tot.get("deep_unknown-trailing-fields-outermost", 0), 200)
    ctx.require("nested oversize", tot.get("deep_nested-size-beyond-parent", 0), 200)
    ctx.require("alternative encodings from the reference", rtot.get("tl2_alternative_encodings", 0), 300)
